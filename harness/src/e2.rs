//! E2 — bounded-exhaustive enumeration through the public API against brute-force oracles.

use crate::auto::{Auto, Cfg, Entry, Kind, Method, Variant, M};
use crate::enumr::{self, Emb, Haystacks, Order};
use crate::oracle::{self, Occ};
use crate::util::{self, hex, my_slot, par_for, set_case, set_hay, Acc};
use serde_json::{json, Value};
use std::panic::{catch_unwind, AssertUnwindSafe};

#[derive(Clone, Debug)]
pub struct Scope {
    pub sigma: usize,
    pub maxlen: usize,
    pub k: usize,
    pub order: Order,
    pub n: usize,
    pub extra: usize,
}

impl Scope {
    pub fn new(sigma: usize, maxlen: usize, k: usize, order: Order, n: usize, extra: usize) -> Self {
        Self {
            sigma,
            maxlen,
            k,
            order,
            n,
            extra,
        }
    }
    pub fn name(&self) -> String {
        format!(
            "S({},{},{}|{},{}){}",
            self.sigma,
            self.maxlen,
            self.k,
            self.n,
            self.extra,
            match self.order {
                Order::AllOrders => "/all-orders",
                Order::Sets => "/sets",
                Order::SetsBothWays => "/sets-fwd+rev",
            }
        )
    }
    pub fn alpha(&self) -> usize {
        self.sigma + self.extra
    }
}

pub struct SeqCtx<'a> {
    pub scope: &'a Scope,
    pub emb: &'a Emb,
    /// abstract patterns
    pub abs: Vec<Vec<u8>>,
    /// concrete patterns
    pub pats: Vec<Vec<u8>>,
}

impl SeqCtx<'_> {
    pub fn pats_json(&self) -> Value {
        json!(self.pats.iter().map(|p| hex(p)).collect::<Vec<_>>())
    }
    /// Calls `f(concrete haystack)` for every haystack of the scope.
    pub fn for_each_hay(&self, mut f: impl FnMut(&[u8])) {
        let slot = my_slot();
        let mut hs = Haystacks::new(self.scope.alpha(), self.scope.n);
        let mut buf = Vec::new();
        while let Some(h) = hs.next() {
            self.emb.map(h, &mut buf);
            set_hay(&slot, &buf);
            f(&buf);
            if util::stopped() {
                break;
            }
        }
    }
}

/// Enumerates (sequence x embedding) in parallel.
pub fn run_scope<F>(scope: &Scope, embs: &[Emb], f: F) -> Acc
where
    F: Fn(&SeqCtx, &mut Acc) + Sync,
{
    let uni = enumr::universe(scope.sigma, scope.maxlen);
    let tasks = enumr::seq_tasks(uni.len(), scope.k, scope.order);
    let mut acc = par_for(tasks.len(), |ti, acc| {
        enumr::for_each_seq(&tasks[ti], uni.len(), scope.k, scope.order, &mut |seq| {
            if util::stopped() {
                return;
            }
            for emb in embs {
                assert!(emb.letters.len() >= scope.alpha());
                let abs: Vec<Vec<u8>> = seq.iter().map(|&i| uni[i].clone()).collect();
                let pats: Vec<Vec<u8>> = abs.iter().map(|w| emb.mapped(w)).collect();
                let ctx = SeqCtx {
                    scope,
                    emb,
                    abs,
                    pats,
                };
                acc.count("pattern_sequences_x_embeddings", 1);
                f(&ctx, acc);
            }
        });
    });
    acc.count(
        "pattern_sequences",
        enumr::count_seqs(uni.len(), scope.k, scope.order),
    );
    acc
}

/// The oracle answer for a method on an automaton of a given kind.
pub fn expected_occ(method: Method, kind: Kind, occ: &[Occ]) -> Vec<Occ> {
    match method {
        Method::Find | Method::FindIt => oracle::o_find(occ),
        Method::Ovl | Method::OvlIt => oracle::o_overlapping(occ),
        Method::NoSuf | Method::NoSufIt => oracle::o_no_suffix(occ),
        Method::Lm => match kind {
            Kind::LL => oracle::o_leftmost_longest(occ),
            Kind::LF => oracle::o_leftmost_first(occ),
            Kind::Std => panic!("leftmost on standard"),
        },
    }
}

pub fn ms_json(ms: &[M]) -> Value {
    json!(ms.iter().map(|&(s, e, v)| json!([s, e, v])).collect::<Vec<_>>())
}

pub fn case_json(cfg: &Cfg, pats: &[Vec<u8>], vals: Option<&[u32]>) -> Value {
    let mut c = cfg.json();
    let m = c.as_object_mut().unwrap();
    m.insert(
        "patterns".into(),
        json!(pats.iter().map(|p| hex(p)).collect::<Vec<_>>()),
    );
    m.insert("values".into(), json!(vals));
    c
}

pub struct Built {
    pub cfg: Cfg,
    pub auto: Auto,
    pub vals: Vec<u32>,
    pub explicit_vals: bool,
    /// the automaton went through serialize/deserialize
    pub restored: bool,
}

impl Built {
    /// The same automaton after a serialisation round trip.
    pub fn round_trip(&self) -> Built {
        let bytes = self.auto.serialize();
        let (a, _, _) = Auto::deserialize(self.cfg.variant, &bytes);
        Built {
            cfg: self.cfg,
            auto: a,
            vals: self.vals.clone(),
            explicit_vals: self.explicit_vals,
            restored: true,
        }
    }
}

/// Builds one automaton, turning an error or a panic into a violation of `prop`.
pub fn build_or_violate(
    prop: &str,
    engine: &'static str,
    cfg: Cfg,
    pats: &[Vec<u8>],
    vals: Option<&[u32]>,
    acc: &mut Acc,
) -> Option<Built> {
    let r = catch_unwind(AssertUnwindSafe(|| Auto::build(cfg, pats, vals)));
    let v: Vec<u32> = match vals {
        Some(v) => v.to_vec(),
        None => (0..pats.len() as u32).collect(),
    };
    match r {
        Ok(Ok(a)) => {
            acc.count("automata_built", 1);
            Some(Built {
                cfg,
                auto: a,
                vals: v,
                explicit_vals: vals.is_some(),
                restored: false,
            })
        }
        Ok(Err(e)) => {
            acc.violate(
                "C10",
                engine,
                format!("valid collection rejected with {e} (found by the {prop} sweep)"),
                with(case_json(&cfg, pats, vals), "expect_build", json!("ok")),
            );
            None
        }
        Err(_) => {
            let msg = util::take_last_panic().unwrap_or_default();
            acc.violate(
                "C10",
                engine,
                format!("construction panicked on a valid collection: {msg} (found by the {prop} sweep)"),
                with(case_json(&cfg, pats, vals), "expect_build", json!("ok")),
            );
            None
        }
    }
}

pub fn with(mut v: Value, k: &str, x: Value) -> Value {
    v.as_object_mut().unwrap().insert(k.to_string(), x);
    v
}

/// Runs `method` on `hay` and compares with the oracle. Returns (expected, got) on mismatch.
/// A panic inside the search is reported as a mismatch with a note.
pub fn judge(
    b: &Built,
    pats: &[Vec<u8>],
    occ: &[Occ],
    hay: &[u8],
    method: Method,
) -> Result<Vec<M>, (Vec<M>, Vec<M>, String)> {
    let exp = oracle::with_values(&expected_occ(method, b.cfg.kind, occ), &b.vals);
    let _ = pats;
    let got = catch_unwind(AssertUnwindSafe(|| b.auto.run(method, hay)));
    match got {
        Ok(g) => {
            if g == exp {
                Ok(g)
            } else if g.last() == Some(&crate::auto::RUNAWAY) {
                Err((exp, g, "the iterator does not stop: it yielded more than 512 matches per haystack position (C13)".to_string()))
            } else {
                Err((exp, g, String::new()))
            }
        }
        Err(_) => Err((
            exp,
            vec![],
            format!(
                "search panicked: {}",
                util::take_last_panic().unwrap_or_default()
            ),
        )),
    }
}

pub fn report_mismatch(
    prop: &str,
    engine: &'static str,
    b: &Built,
    pats: &[Vec<u8>],
    hay: &[u8],
    method: Method,
    exp: &[M],
    got: &[M],
    note: &str,
    acc: &mut Acc,
) {
    let mut c = case_json(
        &b.cfg,
        pats,
        if b.explicit_vals { Some(&b.vals) } else { None },
    );
    let m = c.as_object_mut().unwrap();
    m.insert("haystack".into(), json!(hex(hay)));
    m.insert("method".into(), json!(method.name()));
    if b.restored {
        m.insert("restored".into(), json!(true));
    }
    m.insert("expected".into(), ms_json(exp));
    m.insert("got".into(), ms_json(got));
    if got.last() == Some(&crate::auto::RUNAWAY) && prop != "C13" {
        acc.violate(
            "C13",
            engine,
            format!("{} does not terminate on haystack {:?} (patterns {}): more than 512 matches per position were yielded before the harness stopped it", method.name(), show(hay), show_pats(pats)),
            c.clone(),
        );
    }
    if b.cfg.variant == Variant::Char {
        if let Ok(s) = std::str::from_utf8(hay) {
            if method == Method::Lm && got.iter().any(|m| m.1 > hay.len() || !s.is_char_boundary(m.1)) && prop != "C07" {
                // the leftmost iterator resumes at the end of the match it returns: an end offset
                // inside a character means its next unchecked str slice is not on a boundary, which
                // is C07's business too (no precondition check sees it)
                acc.violate(
                    "C07",
                    engine,
                    format!("{} of the char-wise automaton returns matches {:?} whose end is not a character boundary of {:?}: the iterator resumes there with an unchecked str slice", method.name(), got, show(hay)),
                    c.clone(),
                );
            }
        }
    }
    acc.violate(
        prop,
        engine,
        format!(
            "{} on {} [{} nfb={:?} {}] patterns={:?} haystack={:?}: expected {:?}, got {:?} {}",
            method.name(),
            b.cfg.variant.name(),
            b.cfg.kind.name(),
            b.cfg.nfb,
            b.cfg.entry.name(),
            show_pats(pats),
            show(hay),
            exp,
            got,
            note
        ),
        c,
    );
}

pub fn show_pats(pats: &[Vec<u8>]) -> String {
    let mut v: Vec<String> = pats.iter().take(8).map(|p| show(p)).collect();
    if pats.len() > 8 {
        v.push(format!("... {} patterns in all", pats.len()));
    }
    format!("[{}]", v.join(", "))
}

pub fn show(b: &[u8]) -> String {
    if b.len() > 48 {
        return format!("0x{}..({} bytes)", hex(&b[..24]), b.len());
    }
    match std::str::from_utf8(b) {
        Ok(s) if s.chars().all(|c| !c.is_control()) => s.to_string(),
        _ => format!("0x{}", hex(b)),
    }
}

/// Non-triviality rules, per property (see DESIGN.md §3).
pub fn nontrivial(prop: &str, occ: &[Occ]) -> bool {
    match prop {
        // >= 2 matches of which two share an end or overlap
        "C01" | "C06" | "C12" | "C08" | "C07" | "C13" | "C09" | "C11" | "C14" => {
            let o = oracle::o_overlapping(occ);
            o.windows(2).any(|w| w[0].1 > w[1].0 || w[0].1 == w[1].1)
                || o.iter()
                    .enumerate()
                    .any(|(i, a)| o[i + 1..].iter().any(|b| b.0 < a.1 && a.0 < b.1))
        }
        // the restart rule matters: answer differs from the no-suffix answer
        "C02" => {
            let f = oracle::o_find(occ);
            !f.is_empty() && f != oracle::o_no_suffix(occ)
        }
        "C05" => {
            let f = oracle::o_no_suffix(occ);
            !f.is_empty() && f != oracle::o_find(occ)
        }
        // some occurrence is suppressed by the leftmost rule
        "C03" => {
            let f = oracle::o_leftmost_longest(occ);
            !f.is_empty() && f.len() < occ.len() && f != oracle::o_leftmost_first(occ)
        }
        "C04" => {
            let f = oracle::o_leftmost_first(occ);
            !f.is_empty() && f.len() < occ.len() && f != oracle::o_leftmost_longest(occ)
        }
        _ => !occ.is_empty(),
    }
}

/// The generic per-sequence body: build every configuration, run every haystack through every
/// method, compare with the oracle.
pub fn sweep_searches(
    prop: &str,
    ctx: &SeqCtx,
    cfgs: &[Cfg],
    methods_of: &dyn Fn(Kind) -> Vec<Method>,
    with_values: bool,
    acc: &mut Acc,
) {
    let vals: Vec<u32> = (0..ctx.pats.len() as u32).map(|i| 1000 + 7 * i).collect();
    let mut built: Vec<Built> = Vec::new();
    for &cfg in cfgs {
        if cfg.variant == Variant::Char && !ctx.emb.utf8 {
            continue;
        }
        set_case(prop, "enum", case_json(&cfg, &ctx.pats, None));
        if let Some(b) = build_or_violate(prop, "enum", cfg, &ctx.pats, None, acc) {
            built.push(b);
        }
        if with_values {
            set_case(prop, "enum", case_json(&cfg, &ctx.pats, Some(&vals)));
            if let Some(b) = build_or_violate(prop, "enum", cfg, &ctx.pats, Some(&vals), acc) {
                built.push(b);
            }
        }
    }
    set_case(
        prop,
        "enum",
        json!({"patterns": ctx.pats_json(), "note": "several configurations; see cfg list of the sweep"}),
    );
    // the reference machine of the leftmost product exploration (E7) is validated against the
    // brute-force oracle on every case of the leftmost sweeps
    let mut lmrefs: Vec<(Kind, bool, crate::lm::LmRef)> = Vec::new();
    for b in &built {
        let ic = b.cfg.variant == Variant::Char;
        if b.cfg.kind != Kind::Std && !lmrefs.iter().any(|x| x.0 == b.cfg.kind && x.1 == ic) {
            lmrefs.push((b.cfg.kind, ic, crate::lm::LmRef::new(b.cfg.kind, &ctx.pats, ic)));
        }
    }
    ctx.for_each_hay(|hay| {
        let occ = oracle::occurrences(&ctx.pats, hay);
        acc.evals += 1;
        for (k, ic, rf) in &lmrefs {
            let lab = oracle::labels_of(*ic, hay);
            let got = rf.ref_scan(&lab);
            let exp = expected_occ(Method::Lm, *k, &occ);
            acc.count("leftmost_reference_machine_validations", 1);
            if got != exp {
                eprintln!("MACHINERY: the leftmost reference machine disagrees with the brute-force oracle: kind {} patterns {} haystack {:?}: {:?} vs {:?}", k.name(), show_pats(&ctx.pats), show(hay), got, exp);
                std::process::exit(2);
            }
        }
        if acc.evals % 64 == 0 {
            // the linear-time oracles used for long haystacks are validated here
            if !oracle::fast_oracles_agree(&occ, hay.len()) {
                acc.violate(prop, "enum", "MACHINERY: fast and definitional oracles disagree".into(), json!({"haystack": hex(hay), "patterns": ctx.pats_json()}));
            }
            acc.count("fast_oracle_self_checks", 1);
        }
        let nt = nontrivial(prop, &occ);
        if nt {
            acc.nontrivial += 1;
        }
        for b in &built {
            for m in methods_of(b.cfg.kind) {
                let hops0 = daachorse::verif::fail_hops();
                match judge(b, &ctx.pats, &occ, hay, m) {
                    Ok(g) => {
                        acc.traces += 1;
                        acc.outcomes.insert(util::hash_matches(&g));
                        if nt && acc.nt_samples.len() < 3 {
                            let c = with(
                                with(
                                    case_json(&b.cfg, &ctx.pats, None),
                                    "haystack",
                                    json!(hex(hay)),
                                ),
                                "method",
                                json!(m.name()),
                            );
                            acc.nt_sample(|| with(c, "expected_equals_got", ms_json(&g)));
                        }
                    }
                    Err((e, g, note)) => {
                        report_mismatch(prop, "enum", b, &ctx.pats, hay, m, &e, &g, &note, acc)
                    }
                }
                if b.cfg.kind == Kind::Std {
                    // C13: at most n fail hops (n + hops <= 2n transitions) on every haystack
                    let hops = daachorse::verif::fail_hops() - hops0;
                    let nlab = if b.cfg.variant == Variant::Char {
                        std::str::from_utf8(hay).map_or(hay.len(), |s| s.chars().count())
                    } else {
                        hay.len()
                    };
                    if hops as usize > nlab {
                        let c = with(
                            with(
                                case_json(&b.cfg, &ctx.pats, None),
                                "haystack",
                                json!(hex(hay)),
                            ),
                            "method",
                            json!(m.name()),
                        );
                        acc.violate(
                            "C13",
                            "enum",
                            format!(
                                "{} fail hops on a haystack of {} labels (more than 2n transitions) in {}",
                                hops,
                                nlab,
                                m.name()
                            ),
                            with(c, "check", json!("hops")),
                        );
                    }
                }
            }
        }
    });
}

/// Standard configurations of a variant for the search sweeps.
pub fn cfgs_for(variant: Variant, kind: Kind, nfbs: &[Option<u32>], assoc: bool) -> Vec<Cfg> {
    let mut v = Vec::new();
    for &n in nfbs {
        v.push(Cfg::new(variant, kind, n, Entry::Builder));
    }
    if assoc && kind == Kind::Std {
        v.push(Cfg::new(variant, kind, None, Entry::Assoc));
    }
    v
}

/// Replays one recorded enum case through the public API. Returns true if it still fails.
pub fn replay(case: &Value) -> bool {
    let cfg = Cfg::from_json(case);
    let pats: Vec<Vec<u8>> = case["patterns"]
        .as_array()
        .expect("patterns")
        .iter()
        .map(|p| util::unhex(p.as_str().unwrap()))
        .collect();
    let vals: Option<Vec<u32>> = case["values"]
        .as_array()
        .map(|a| a.iter().map(|x| x.as_u64().unwrap() as u32).collect());
    let hay = util::unhex(case["haystack"].as_str().unwrap_or(""));
    let mut acc = Acc::new();
    let prop = case["property"].as_str().unwrap_or("C01").to_string();
    let Some(mut b) = build_or_violate(&prop, "enum", cfg, &pats, vals.as_deref(), &mut acc) else {
        println!("replay: construction fails");
        return true;
    };
    if case["restored"].as_bool() == Some(true) {
        b = b.round_trip();
    }
    let methods: Vec<Method> = match case["method"].as_str() {
        Some(m) if !m.is_empty() => vec![Method::parse(m)],
        _ => Method::for_kind(cfg.kind).to_vec(),
    };
    let occ = oracle::occurrences(&pats, &hay);
    let mut failed = false;
    for m in methods {
        if (m == Method::Lm) != (cfg.kind != Kind::Std) {
            continue;
        }
        let hops0 = daachorse::verif::fail_hops();
        match judge(&b, &pats, &occ, &hay, m) {
            Ok(g) => println!("replay: {} -> {:?} (as expected)", m.name(), g),
            Err((e, g, note)) => {
                println!(
                    "replay: {} -> got {:?}, expected {:?} {}",
                    m.name(),
                    g,
                    e,
                    note
                );
                failed = true;
            }
        }
        if case["check"].as_str() == Some("hops") {
            let hops = daachorse::verif::fail_hops() - hops0;
            println!("replay: {} fail hops on {} bytes", hops, hay.len());
            let nlab = if cfg.variant == Variant::Char {
                std::str::from_utf8(&hay).map_or(hay.len(), |s| s.chars().count())
            } else {
                hay.len()
            };
            if hops as usize > nlab {
                failed = true;
            }
        }
    }
    failed
}

/// C04: removing the patterns that have an earlier-registered proper prefix (keeping the values of
/// the others) must not change any result, and such a pattern is never reported. No hand-written
/// expectation is involved: two real automata are compared on every haystack.
pub fn shadow_differential(prop: &str, ctx: &SeqCtx, variants: &[Variant], acc: &mut Acc) {
    let n = ctx.pats.len();
    let shadowed: Vec<bool> = (0..n)
        .map(|i| (0..i).any(|j| ctx.pats[i].len() > ctx.pats[j].len() && ctx.pats[i].starts_with(&ctx.pats[j])))
        .collect();
    if !shadowed.iter().any(|&x| x) {
        return;
    }
    let keep: Vec<usize> = (0..n).filter(|&i| !shadowed[i]).collect();
    let kp: Vec<Vec<u8>> = keep.iter().map(|&i| ctx.pats[i].clone()).collect();
    let kv: Vec<u32> = keep.iter().map(|&i| i as u32).collect();
    for &variant in variants {
        if variant == Variant::Char && !ctx.emb.utf8 {
            continue;
        }
        let cfg = Cfg::new(variant, Kind::LF, None, Entry::Builder);
        set_case(prop, "enum", case_json(&cfg, &ctx.pats, None));
        let Some(full) = build_or_violate(prop, "enum", cfg, &ctx.pats, None, acc) else {
            continue;
        };
        let Some(reduced) = build_or_violate(prop, "enum", cfg, &kp, Some(&kv), acc) else {
            continue;
        };
        acc.count("shadow_differential_pairs", 1);
        ctx.for_each_hay(|hay| {
            let a = full.auto.run(Method::Lm, hay);
            let b = reduced.auto.run(Method::Lm, hay);
            acc.traces += 1;
            if a != b || a.iter().any(|m| shadowed[m.2 as usize]) {
                let mut c = case_json(&cfg, &ctx.pats, None);
                let o = c.as_object_mut().unwrap();
                o.insert("haystack".into(), json!(hex(hay)));
                o.insert("method".into(), json!(Method::Lm.name()));
                o.insert("expected".into(), ms_json(&b));
                o.insert("got".into(), ms_json(&a));
                acc.violate(prop, "enum",
                    format!("leftmost-first: patterns {} on {:?} give {:?}; without the patterns that have an earlier-registered proper prefix the result is {:?} (a shadowed pattern is reported or changes the result)",
                        show_pats(&ctx.pats), show(hay), a, b), c);
            }
        });
    }
}

//! Shared plumbing: accumulators, violation sink, parallel driver, crash attribution.

use serde_json::{json, Value};
use std::cell::{Cell, RefCell};
use std::collections::{BTreeMap, HashSet};
use std::sync::atomic::{AtomicBool, AtomicU64, AtomicUsize, Ordering};
use std::sync::{Arc, Mutex, OnceLock};
use std::time::Instant;

pub fn hex(b: &[u8]) -> String {
    let mut s = String::with_capacity(b.len() * 2);
    for x in b {
        s.push_str(&format!("{x:02x}"));
    }
    s
}

pub fn unhex(s: &str) -> Vec<u8> {
    (0..s.len() / 2)
        .map(|i| u8::from_str_radix(&s[2 * i..2 * i + 2], 16).expect("hex"))
        .collect()
}

pub fn fnv(data: &[u8], mut h: u64) -> u64 {
    for &b in data {
        h ^= u64::from(b);
        h = h.wrapping_mul(0x100_0000_01b3);
    }
    h
}
pub const FNV0: u64 = 0xcbf2_9ce4_8422_2325;

pub fn hash_matches(ms: &[(usize, usize, u64)]) -> u64 {
    let mut h = FNV0;
    for &(s, e, v) in ms {
        h = fnv(&(s as u32).to_le_bytes(), h);
        h = fnv(&(e as u32).to_le_bytes(), h);
        h = fnv(&v.to_le_bytes(), h);
    }
    h
}

// ------------------------------------------------------------------------------------------------
// Verif root directory and run context

pub fn verif_root() -> std::path::PathBuf {
    std::env::var_os("VERIF_ROOT")
        .map(std::path::PathBuf::from)
        .unwrap_or_else(|| std::path::PathBuf::from("/verif"))
}

pub fn seed() -> u64 {
    std::env::var("VERIF_SEED")
        .ok()
        .and_then(|s| s.parse::<u64>().ok())
        .unwrap_or(0)
}

pub fn nthreads() -> usize {
    std::env::var("VERIF_THREADS")
        .ok()
        .and_then(|s| s.parse().ok())
        .unwrap_or_else(|| {
            std::thread::available_parallelism()
                .map(|n| n.get())
                .unwrap_or(4)
        })
        .clamp(1, 64)
}

// ------------------------------------------------------------------------------------------------
// Run context (so that an abort path can still leave an evidence file behind)

static RUN_CTX: OnceLock<(String, String)> = OnceLock::new();
static RUN_START: OnceLock<Instant> = OnceLock::new();

pub fn set_run_context(property: &str, tier: &str) {
    let _ = RUN_CTX.set((property.to_string(), tier.to_string()));
    let _ = RUN_START.set(Instant::now());
}

/// Evidence for a run that ended inside the panic hook / watchdog: only what is known there.
pub fn write_abort_evidence(what: &str) {
    let Some((prop, tier)) = RUN_CTX.get() else {
        return;
    };
    let wall = RUN_START.get().map_or(0.0, |t| t.elapsed().as_secs_f64());
    let ev = json!({
        "property_id": prop,
        "tier": tier,
        "seed": seed(),
        "level": "other",
        "coverage": {
            "explanation": format!("the run stopped at its first violation, inside library code, before the sweep finished: {what}"),
            "exhaustive": false,
        },
        "wall_s": (wall * 1000.0).round() / 1000.0,
        "violations": 1,
    });
    let dir = verif_root().join("evidence");
    let _ = std::fs::create_dir_all(&dir);
    let _ = std::fs::write(dir.join(format!("{prop}.json")), serde_json::to_string_pretty(&ev).unwrap() + "\n");
}

// ------------------------------------------------------------------------------------------------
// Violations

#[derive(Clone, Debug)]
pub struct Violation {
    pub property: String,
    pub engine: &'static str,
    pub what: String,
    pub case: Value,
}

static VIOLATION_SEQ: AtomicUsize = AtomicUsize::new(0);
pub static STOP: AtomicBool = AtomicBool::new(false);
pub const MAX_VIOLATIONS: usize = 6;

/// Writes the replay file and prints the VIOLATION line. Returns the path.
pub fn emit_violation(v: &Violation) -> String {
    let n = VIOLATION_SEQ.fetch_add(1, Ordering::SeqCst);
    let dir = verif_root().join("replays");
    let _ = std::fs::create_dir_all(&dir);
    let path = dir.join(format!("{}-{}-{}.json", v.property, v.engine, n));
    let mut case = v.case.clone();
    if let Value::Object(ref mut m) = case {
        m.insert("property".into(), json!(v.property));
        m.insert("engine".into(), json!(v.engine));
        m.insert("what".into(), json!(v.what));
    }
    let _ = std::fs::write(&path, serde_json::to_string_pretty(&case).unwrap() + "\n");
    let p = path.to_string_lossy().to_string();
    println!("VIOLATION property={} replay={}", v.property, p);
    println!("  what: {}", v.what);
    if n + 1 >= MAX_VIOLATIONS {
        STOP.store(true, Ordering::SeqCst);
    }
    p
}

pub fn violations_emitted() -> usize {
    VIOLATION_SEQ.load(Ordering::SeqCst)
}

pub fn stopped() -> bool {
    STOP.load(Ordering::Relaxed)
}

// ------------------------------------------------------------------------------------------------
// Accumulator

#[derive(Default)]
pub struct Acc {
    pub evals: u64,
    pub nontrivial: u64,
    pub states: u64,
    pub transitions: u64,
    pub traces: u64,
    pub outcomes: HashSet<u64>,
    pub samples: Vec<Value>,
    pub nt_samples: Vec<Value>,
    pub violations: Vec<Violation>,
    pub counters: BTreeMap<String, u64>,
    pub maxima: BTreeMap<String, u64>,
    pub notes: Vec<String>,
    pub known: Vec<String>,
}

impl Acc {
    pub fn new() -> Self {
        Self::default()
    }
    pub fn count(&mut self, k: &str, n: u64) {
        *self.counters.entry(k.to_string()).or_insert(0) += n;
    }
    pub fn max(&mut self, k: &str, n: u64) {
        let e = self.maxima.entry(k.to_string()).or_insert(0);
        if n > *e {
            *e = n;
        }
    }
    pub fn sample(&mut self, f: impl FnOnce() -> Value) {
        if self.samples.len() < 2 {
            self.samples.push(f());
        }
    }
    pub fn nt_sample(&mut self, f: impl FnOnce() -> Value) {
        if self.nt_samples.len() < 3 {
            self.nt_samples.push(f());
        }
    }
    pub fn violate(&mut self, property: &str, engine: &'static str, what: String, case: Value) {
        if self.violations.len() >= MAX_VIOLATIONS || stopped() {
            return;
        }
        let v = Violation {
            property: property.to_string(),
            engine,
            what,
            case,
        };
        emit_violation(&v);
        self.violations.push(v);
    }
    pub fn merge(&mut self, o: Acc) {
        self.evals += o.evals;
        self.nontrivial += o.nontrivial;
        self.states += o.states;
        self.transitions += o.transitions;
        self.traces += o.traces;
        self.outcomes.extend(o.outcomes);
        for s in o.samples {
            if self.samples.len() < 3 {
                self.samples.push(s);
            }
        }
        for s in o.nt_samples {
            if self.nt_samples.len() < 4 {
                self.nt_samples.push(s);
            }
        }
        self.violations.extend(o.violations);
        for (k, v) in o.counters {
            *self.counters.entry(k).or_insert(0) += v;
        }
        for (k, v) in o.maxima {
            let e = self.maxima.entry(k).or_insert(0);
            if v > *e {
                *e = v;
            }
        }
        for n in o.notes {
            if !self.notes.contains(&n) {
                self.notes.push(n);
            }
        }
        for n in o.known {
            if !self.known.contains(&n) {
                self.known.push(n);
            }
        }
    }
}

// ------------------------------------------------------------------------------------------------
// Crash / hang attribution.  Every worker thread owns a slot describing the case it is running.

#[derive(Default, Clone)]
pub struct Slot {
    pub property: String,
    pub engine: &'static str,
    pub case: Value, // automaton-level description
    pub hay: Vec<u8>,
    pub method: &'static str,
}

pub struct SlotHandle {
    pub slot: Mutex<Slot>,
    pub progress: AtomicU64,
    pub busy: AtomicBool,
    /// set while a case is executed whose table the interpreter predicts to loop: the watchdog then
    /// waits 10 s instead of the full deadline
    pub expect_hang: AtomicBool,
}

thread_local! {
    static MY_SLOT: RefCell<Option<Arc<SlotHandle>>> = const { RefCell::new(None) };
    pub static IN_LIB: Cell<bool> = const { Cell::new(false) };
    static LAST_PANIC: RefCell<Option<String>> = const { RefCell::new(None) };
}

fn registry() -> &'static Mutex<Vec<Arc<SlotHandle>>> {
    static R: OnceLock<Mutex<Vec<Arc<SlotHandle>>>> = OnceLock::new();
    R.get_or_init(|| Mutex::new(Vec::new()))
}

pub fn my_slot() -> Arc<SlotHandle> {
    MY_SLOT.with(|s| {
        let mut s = s.borrow_mut();
        if s.is_none() {
            let h = Arc::new(SlotHandle {
                slot: Mutex::new(Slot::default()),
                progress: AtomicU64::new(0),
                busy: AtomicBool::new(false),
                expect_hang: AtomicBool::new(false),
            });
            registry().lock().unwrap().push(h.clone());
            *s = Some(h);
        }
        s.as_ref().unwrap().clone()
    })
}

/// Declares the automaton-level case the current thread is working on.
pub fn set_case(property: &str, engine: &'static str, case: Value) {
    let h = my_slot();
    let mut s = h.slot.lock().unwrap_or_else(|e| e.into_inner());
    s.property = property.to_string();
    s.engine = engine;
    s.case = case;
    s.hay.clear();
    s.method = "";
    h.busy.store(true, Ordering::Relaxed);
    h.progress.fetch_add(1, Ordering::Relaxed);
}

/// Declares the haystack the current thread is about to run.
#[inline]
pub fn set_hay(h: &Arc<SlotHandle>, hay: &[u8]) {
    {
        let mut s = h.slot.lock().unwrap_or_else(|e| e.into_inner());
        s.hay.clear();
        s.hay.extend_from_slice(hay);
    }
    h.progress.fetch_add(1, Ordering::Relaxed);
}

pub fn expect_hang(on: bool) {
    my_slot().expect_hang.store(on, Ordering::Relaxed);
}

pub fn tick_progress() {
    my_slot().progress.fetch_add(1, Ordering::Relaxed);
}

pub fn clear_case() {
    let h = my_slot();
    h.busy.store(false, Ordering::Relaxed);
}

fn slot_case_json(s: &Slot) -> Value {
    let mut c = s.case.clone();
    if !c.is_object() {
        c = json!({});
    }
    let m = c.as_object_mut().unwrap();
    if !s.hay.is_empty() || !m.contains_key("haystack") {
        m.insert("haystack".into(), json!(hex(&s.hay)));
    }
    if !s.method.is_empty() {
        m.insert("method".into(), json!(s.method));
    }
    c
}

/// Runs `f` with the "inside library code" flag set.
#[inline(always)]
pub fn in_lib<R>(f: impl FnOnce() -> R) -> R {
    let prev = IN_LIB.with(|c| c.replace(true));
    let r = f();
    IN_LIB.with(|c| c.set(prev));
    r
}

pub fn take_last_panic() -> Option<String> {
    LAST_PANIC.with(|p| p.borrow_mut().take())
}

extern "C" {
    fn signal(signum: i32, handler: usize) -> usize;
    fn alarm(seconds: u32) -> u32;
    fn _exit(code: i32) -> !;
}

/// Fatal signals (SIGSEGV, SIGBUS, SIGILL, SIGFPE, SIGABRT) while a worker thread is inside library
/// code: the case that thread had declared becomes the replay of a C07 violation. The handler is not
/// async-signal-safe in the strict sense (it formats and writes a file); the process is lost anyway,
/// and an alarm bounds the time it may take.
extern "C" fn on_fatal_signal(sig: i32) {
    unsafe {
        alarm(10);
    }
    let in_lib = IN_LIB.try_with(Cell::get).unwrap_or(false);
    let slot: Option<Slot> = MY_SLOT
        .try_with(|s| s.try_borrow().ok().and_then(|o| o.as_ref().map(|h| h.slot.try_lock().ok().map(|g| g.clone()))))
        .ok()
        .flatten()
        .flatten();
    match (in_lib, slot) {
        (true, Some(s)) if !s.property.is_empty() => {
            let mut case = slot_case_json(&s);
            case.as_object_mut().unwrap().insert("signal".into(), json!(sig));
            let v = Violation {
                property: "C07".to_string(),
                engine: s.engine,
                what: format!("library code crashed with signal {sig} (memory fault) during a {} sweep", s.property),
                case,
            };
            let path = emit_violation(&v);
            if s.property != "C07" {
                println!("VIOLATION property={} replay={}", s.property, path);
                println!("  what: a search through the public API crashed instead of returning its matches (see the C07 line above)");
            }
            write_abort_evidence(&v.what);
            use std::io::Write;
            let _ = std::io::stdout().flush();
            unsafe { _exit(1) }
        }
        _ => {
            eprintln!("MACHINERY: fatal signal {sig} outside library code");
            unsafe { _exit(2) }
        }
    }
}

/// Installs the panic hook (attribution of non-unwinding aborts) and the hang watchdog.
pub fn install_guards(hang_secs: u64) {
    for sig in [11, 7, 4, 8, 6] {
        unsafe {
            signal(sig, on_fatal_signal as usize);
        }
    }
    std::panic::set_hook(Box::new(|info| {
        let msg = format!("{info}");
        let in_lib = IN_LIB.with(Cell::get);
        LAST_PANIC.with(|p| *p.borrow_mut() = Some(msg.clone()));
        // `PanicHookInfo::can_unwind` is unstable; std's precondition checks are recognised by
        // their message. Any other in-library panic leaves a pending-case file behind so that the
        // driver can attribute a following abort (see ./check).
        let nounwind = msg.contains("unsafe precondition(s) violated")
            || msg.contains("cannot unwind");
        if nounwind {
            // The process is about to abort: attribute it now.
            let h = my_slot();
            let s = h.slot.lock().unwrap_or_else(|e| e.into_inner()).clone();
            if in_lib && !s.property.is_empty() {
                let mut case = slot_case_json(&s);
                case.as_object_mut()
                    .unwrap()
                    .insert("abort".into(), json!(msg));
                // Undefined behaviour caught by std's precondition checks is a C07 matter whatever
                // sweep executed it.
                let v = Violation {
                    property: "C07".to_string(),
                    engine: s.engine,
                    what: format!(
                        "library code aborted (unsafe precondition / non-unwinding panic) during a {} sweep: {}",
                        s.property, msg
                    ),
                    case,
                };
                let path = emit_violation(&v);
                if s.property != "C07" {
                    // the search did not deliver its result either: also a violation of the property
                    // whose sweep was running
                    println!("VIOLATION property={} replay={}", s.property, path);
                    println!("  what: a search through the public API aborted instead of returning its matches (see the C07 line above)");
                }
                write_abort_evidence(&v.what);
                use std::io::Write;
                let _ = std::io::stdout().flush();
                std::process::exit(1);
            } else {
                eprintln!("MACHINERY: non-unwinding panic outside library code: {msg}");
                std::process::exit(2);
            }
        } else if !in_lib {
            eprintln!("harness panic: {msg}");
        } else {
            let h = my_slot();
            let s = h.slot.lock().unwrap_or_else(|e| e.into_inner()).clone();
            let mut case = slot_case_json(&s);
            let m = case.as_object_mut().unwrap();
            m.insert("abort".into(), json!(msg));
            m.insert("property".into(), json!("C07"));
            m.insert("engine".into(), json!(s.engine));
            m.insert("sweep".into(), json!(s.property));
            let p = verif_root().join("replays");
            let _ = std::fs::create_dir_all(&p);
            let _ = std::fs::write(
                p.join(format!(".pending-{}.json", std::process::id())),
                serde_json::to_string_pretty(&case).unwrap(),
            );
        }
    }));
    if hang_secs > 0 {
        std::thread::spawn(move || {
            let mut last: Vec<(u64, Instant)> = Vec::new();
            loop {
                std::thread::sleep(std::time::Duration::from_millis(500));
                let reg: Vec<Arc<SlotHandle>> = registry().lock().unwrap().clone();
                while last.len() < reg.len() {
                    last.push((0, Instant::now()));
                }
                for (i, h) in reg.iter().enumerate() {
                    let p = h.progress.load(Ordering::Relaxed);
                    if p != last[i].0 || !h.busy.load(Ordering::Relaxed) {
                        last[i] = (p, Instant::now());
                    } else if last[i].1.elapsed().as_secs() >= if h.expect_hang.load(Ordering::Relaxed) { hang_secs.min(10) } else { hang_secs } {
                        let hang_secs = last[i].1.elapsed().as_secs();
                        let s = h.slot.lock().unwrap_or_else(|e| e.into_inner()).clone();
                        let mut case = slot_case_json(&s);
                        case.as_object_mut()
                            .unwrap()
                            .insert("timeout_s".into(), json!(hang_secs));
                        let v = Violation {
                            property: "C13".to_string(),
                            engine: s.engine,
                            what: format!(
                                "no progress for {hang_secs} s inside one case of a {} sweep (search or construction does not terminate)",
                                s.property
                            ),
                            case,
                        };
                        emit_violation(&v);
                        write_abort_evidence(&v.what);
                        use std::io::Write;
                        let _ = std::io::stdout().flush();
                        std::process::exit(1);
                    }
                }
            }
        });
    }
}

// ------------------------------------------------------------------------------------------------
// Parallel driver

/// Runs `f(task_index, &mut acc)` for every task on a pool of threads; returns the merged Acc.
pub fn par_for<F>(ntasks: usize, f: F) -> Acc
where
    F: Fn(usize, &mut Acc) + Sync,
{
    let next = AtomicUsize::new(0);
    let nt = nthreads().min(ntasks.max(1));
    let total = Mutex::new(Acc::new());
    std::thread::scope(|sc| {
        for _ in 0..nt {
            sc.spawn(|| {
                let mut acc = Acc::new();
                loop {
                    if stopped() {
                        break;
                    }
                    let i = next.fetch_add(1, Ordering::Relaxed);
                    if i >= ntasks {
                        break;
                    }
                    f(i, &mut acc);
                }
                clear_case();
                total.lock().unwrap().merge(acc);
            });
        }
    });
    total.into_inner().unwrap()
}

// ------------------------------------------------------------------------------------------------
// Evidence

pub struct EvidenceSpec<'a> {
    pub property: &'a str,
    pub tier: &'a str,
    pub level: &'a str,
    pub rule: &'a str,
    pub bounds: Vec<String>,
    pub assumptions: Vec<String>,
    pub exhaustive: bool,
}

pub fn write_evidence(spec: &EvidenceSpec, acc: &Acc, wall_s: f64) {
    let mut samples: Vec<Value> = acc.nt_samples.clone();
    samples.extend(acc.samples.iter().cloned());
    if samples.is_empty() {
        samples.push(json!({"note": "no case recorded"}));
    }
    let mut cov = serde_json::Map::new();
    cov.insert("evaluations".into(), json!(acc.evals));
    cov.insert("distinct_nontrivial".into(), json!(acc.nontrivial));
    cov.insert("rule".into(), json!(spec.rule));
    cov.insert("samples".into(), Value::Array(samples));
    cov.insert("states".into(), json!(acc.states));
    cov.insert("transitions".into(), json!(acc.transitions));
    cov.insert("traces_validated_against_impl".into(), json!(acc.traces));
    // a run is only called exhaustive when nothing was cut short: no early stop, no exploration that
    // ended at an unconfirmed difference, no cap hit
    let cut_short = acc.counters.keys().any(|k| k.starts_with("unconfirmed_") || k.ends_with("_cap_hits"));
    cov.insert("exhaustive".into(), json!(spec.exhaustive && !stopped() && !cut_short));
    cov.insert("distinct_outcomes".into(), json!(acc.outcomes.len()));
    cov.insert("bounds_completed".into(), json!(spec.bounds));
    for (k, v) in &acc.counters {
        cov.insert(k.clone(), json!(v));
    }
    for (k, v) in &acc.maxima {
        cov.insert(format!("max_{k}"), json!(v));
    }
    if !acc.notes.is_empty() {
        cov.insert("notes".into(), json!(acc.notes));
    }
    cov.insert("known_findings_printed".into(), json!(acc.known));
    let ev = json!({
        "property_id": spec.property,
        "tier": spec.tier,
        "seed": seed(),
        "level": spec.level,
        "coverage": Value::Object(cov),
        "assumptions": spec.assumptions,
        "wall_s": (wall_s * 1000.0).round() / 1000.0,
        "violations": acc.violations.len(),
    });
    let dir = verif_root().join("evidence");
    let _ = std::fs::create_dir_all(&dir);
    let path = dir.join(format!("{}.json", spec.property));
    std::fs::write(&path, serde_json::to_string_pretty(&ev).unwrap() + "\n").expect("write evidence");
}

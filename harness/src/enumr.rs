//! Enumerators for the small scope: pattern universes, pattern sequences, haystacks, embeddings.

/// Abstract strings over letters 0..sigma, non-empty, length <= maxlen, in shortlex order.
pub fn universe(sigma: usize, maxlen: usize) -> Vec<Vec<u8>> {
    let mut all = Vec::new();
    let mut layer: Vec<Vec<u8>> = vec![vec![]];
    for _ in 0..maxlen {
        let mut next = Vec::new();
        for w in &layer {
            for a in 0..sigma {
                let mut x = w.clone();
                x.push(a as u8);
                next.push(x);
            }
        }
        all.extend(next.iter().cloned());
        layer = next;
    }
    all
}

/// How pattern collections are drawn from the universe.
#[derive(Clone, Copy, Debug, PartialEq, Eq)]
pub enum Order {
    /// every ordered duplicate-free sequence
    AllOrders,
    /// every set once, in universe order
    Sets,
    /// every set in universe order and in reverse order
    SetsBothWays,
}

/// Work units: prefixes (of universe indices) of length 1 or 2. A unit of length 1 stands for the
/// one-element sequence only; a unit of length 2 for that pair and all its extensions up to `k`.
pub fn seq_tasks(usize_u: usize, k: usize, order: Order) -> Vec<Vec<usize>> {
    let mut t = Vec::new();
    for i in 0..usize_u {
        t.push(vec![i]);
    }
    if k >= 2 {
        for i in 0..usize_u {
            for j in 0..usize_u {
                if i == j {
                    continue;
                }
                if order != Order::AllOrders && j < i {
                    continue;
                }
                t.push(vec![i, j]);
            }
        }
    }
    t
}

/// Calls `f` with every sequence of universe indices that the task stands for.
pub fn for_each_seq(
    task: &[usize],
    usize_u: usize,
    k: usize,
    order: Order,
    f: &mut dyn FnMut(&[usize]),
) {
    fn rec(cur: &mut Vec<usize>, n: usize, k: usize, order: Order, f: &mut dyn FnMut(&[usize])) {
        match order {
            Order::AllOrders | Order::Sets => f(cur),
            Order::SetsBothWays => {
                f(cur);
                if cur.len() > 1 {
                    let r: Vec<usize> = cur.iter().rev().copied().collect();
                    f(&r);
                }
            }
        }
        if cur.len() >= k {
            return;
        }
        let start = if order == Order::AllOrders {
            0
        } else {
            cur.last().map_or(0, |&l| l + 1)
        };
        for i in start..n {
            if cur.contains(&i) {
                continue;
            }
            cur.push(i);
            rec(cur, n, k, order, f);
            cur.pop();
        }
    }
    let mut cur = task.to_vec();
    if task.len() == 1 {
        match order {
            Order::AllOrders | Order::Sets | Order::SetsBothWays => f(&cur),
        }
        return;
    }
    rec(&mut cur, usize_u, k, order, f);
}

/// Number of sequences a configuration enumerates (for the evidence / sanity checks).
pub fn count_seqs(usize_u: usize, k: usize, order: Order) -> u64 {
    let n = usize_u as u64;
    let mut total = 0u64;
    for j in 1..=k as u64 {
        let mut perms = 1u64;
        for t in 0..j {
            perms *= n - t;
        }
        let mut fact = 1u64;
        for t in 1..=j {
            fact *= t;
        }
        total += match order {
            Order::AllOrders => perms,
            Order::Sets => perms / fact,
            Order::SetsBothWays => {
                if j == 1 {
                    perms
                } else {
                    2 * perms / fact
                }
            }
        };
    }
    total
}

/// An embedding maps abstract letters to concrete byte strings (one byte, or one UTF-8 character).
#[derive(Clone, Debug)]
pub struct Emb {
    pub name: &'static str,
    pub letters: Vec<Vec<u8>>,
    pub utf8: bool,
}

fn ch(c: u32) -> Vec<u8> {
    char::from_u32(c).unwrap().to_string().into_bytes()
}

impl Emb {
    pub fn bytes(name: &'static str, l: &[u8]) -> Emb {
        Emb {
            name,
            letters: l.iter().map(|&b| vec![b]).collect(),
            utf8: l.iter().all(|&b| b < 0x80),
        }
    }
    pub fn chars(name: &'static str, l: &[u32]) -> Emb {
        Emb {
            name,
            letters: l.iter().map(|&c| ch(c)).collect(),
            utf8: true,
        }
    }
    pub fn map(&self, w: &[u8], out: &mut Vec<u8>) {
        out.clear();
        for &a in w {
            out.extend_from_slice(&self.letters[a as usize]);
        }
    }
    pub fn mapped(&self, w: &[u8]) -> Vec<u8> {
        let mut v = Vec::new();
        self.map(w, &mut v);
        v
    }
}

/// Byte embeddings. The pattern letters are the first `sigma` letters, haystack-only extras follow.
pub fn byte_embeddings(seed: u64) -> Vec<Emb> {
    let mut v = vec![
        Emb::bytes("ascii", b"abcd"),
        // vacant-slot default CHECK values, maximum label, a continuation byte
        Emb::bytes("edge", &[0x00, 0x01, 0xff, 0x80]),
        Emb::bytes("hi", &[0xfe, 0xff, 0x7f, 0x00]),
        Emb::bytes("edge2", &[0x01, 0xff, 0x00, 0x02]),
    ];
    if seed != 0 {
        let mut x = seed.wrapping_mul(0x9e37_79b9_7f4a_7c15) | 1;
        let mut l = Vec::new();
        while l.len() < 4 {
            x ^= x << 13;
            x ^= x >> 7;
            x ^= x << 17;
            let b = (x >> 24) as u8;
            if !l.contains(&b) {
                l.push(b);
            }
        }
        v.push(Emb {
            name: "seeded",
            letters: l.iter().map(|&b| vec![b]).collect(),
            utf8: false,
        });
    }
    v
}

/// Character embeddings (1-4 byte characters, width boundaries, shared UTF-8 prefixes).
pub fn char_embeddings() -> Vec<Emb> {
    vec![
        // 1/2/3/4-byte characters
        Emb::chars("mixed", &[0x61, 0xe9, 0x4e16, 0x1f600]),
        // wide pattern letters first, narrow ones as haystack-only letters
        Emb::chars("mixed_rot", &[0x4e16, 0x1f600, 0x61, 0xe9]),
        Emb::chars("low", &[0x00, 0x01, 0x7f, 0x80]),
        Emb::chars("edges", &[0x7ff, 0x800, 0xffff, 0x10000]),
        // all E4 B8 xx: byte-wise siblings two levels deep
        Emb::chars("cjk", &[0x4e16, 0x4e17, 0x4e1c, 0x4e14]),
        // 4-byte pattern letters, the largest scalar value as haystack-only letter
        Emb::chars("astral", &[0x10000, 0x1f600, 0x10ffff, 0x7a]),
        Emb::chars("ascii", &[0x61, 0x62, 0x63, 0x64]),
    ]
}

/// Iterates over all abstract haystacks of length 0..=n over `alpha` letters (shortlex).
pub struct Haystacks {
    alpha: usize,
    n: usize,
    cur: Vec<u8>,
    started: bool,
    done: bool,
}

impl Haystacks {
    pub fn new(alpha: usize, n: usize) -> Self {
        Self {
            alpha,
            n,
            cur: Vec::new(),
            started: false,
            done: false,
        }
    }
    /// Advances; returns the current abstract haystack.
    pub fn next(&mut self) -> Option<&[u8]> {
        if self.done {
            return None;
        }
        if !self.started {
            self.started = true;
            return Some(&self.cur);
        }
        // odometer increment within the current length, else grow
        let mut i = self.cur.len();
        loop {
            if i == 0 {
                // grow
                if self.cur.len() >= self.n || self.alpha == 0 {
                    self.done = true;
                    return None;
                }
                let l = self.cur.len() + 1;
                self.cur.clear();
                self.cur.resize(l, 0);
                return Some(&self.cur);
            }
            i -= 1;
            if (self.cur[i] as usize) + 1 < self.alpha {
                self.cur[i] += 1;
                for x in &mut self.cur[i + 1..] {
                    *x = 0;
                }
                return Some(&self.cur);
            }
        }
    }
    pub fn count(alpha: usize, n: usize) -> u64 {
        let mut t = 0u64;
        let mut p = 1u64;
        for _ in 0..=n {
            t += p;
            p *= alpha as u64;
        }
        t
    }
}

#[cfg(test)]
mod tests {
    use super::*;
    #[test]
    fn sizes() {
        assert_eq!(universe(2, 4).len(), 30);
        assert_eq!(universe(3, 3).len(), 39);
        assert_eq!(count_seqs(30, 3, Order::AllOrders), 25260);
        let mut h = Haystacks::new(2, 8);
        let mut n = 0;
        while h.next().is_some() {
            n += 1;
        }
        assert_eq!(n, 511);
        for order in [Order::AllOrders, Order::Sets, Order::SetsBothWays] {
            let mut c = 0u64;
            for t in seq_tasks(14, 3, order) {
                for_each_seq(&t, 14, 3, order, &mut |_| c += 1);
            }
            assert_eq!(c, count_seqs(14, 3, order));
        }
    }
}

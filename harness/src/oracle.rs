//! Reference models: brute-force occurrence lists, the five search oracles and a textbook
//! Aho-Corasick automaton. Shares no code with daachorse.

use std::collections::BTreeMap;

/// (start, end, pattern index)
pub type Occ = (usize, usize, usize);

/// All occurrences of all patterns, by slice comparison.
pub fn occurrences(pats: &[Vec<u8>], hay: &[u8]) -> Vec<Occ> {
    let mut v = Vec::new();
    for s in 0..hay.len() {
        for (i, p) in pats.iter().enumerate() {
            let e = s + p.len();
            if !p.is_empty() && e <= hay.len() && &hay[s..e] == p.as_slice() {
                v.push((s, e, i));
            }
        }
    }
    v
}

/// Overlapping search: end ascending, longest (smallest start) first.
pub fn o_overlapping(occ: &[Occ]) -> Vec<Occ> {
    let mut v = occ.to_vec();
    v.sort_by(|a, b| a.1.cmp(&b.1).then(a.0.cmp(&b.0)));
    v
}

/// Standard non-overlapping search: earliest end (then longest) among occurrences at or after the
/// previous end; restart at its end.
pub fn o_find(occ: &[Occ]) -> Vec<Occ> {
    let mut v = Vec::new();
    let mut pos = 0;
    loop {
        let best = occ
            .iter()
            .filter(|o| o.0 >= pos)
            .min_by(|a, b| a.1.cmp(&b.1).then(a.0.cmp(&b.0)));
        match best {
            Some(&o) => {
                v.push(o);
                pos = o.1;
            }
            None => return v,
        }
    }
}

/// Leftmost-longest: smallest start, then longest.
pub fn o_leftmost_longest(occ: &[Occ]) -> Vec<Occ> {
    let mut v = Vec::new();
    let mut pos = 0;
    loop {
        let best = occ
            .iter()
            .filter(|o| o.0 >= pos)
            .min_by(|a, b| a.0.cmp(&b.0).then(b.1.cmp(&a.1)));
        match best {
            Some(&o) => {
                v.push(o);
                pos = o.1;
            }
            None => return v,
        }
    }
}

/// Leftmost-first: smallest start, then smallest registration index.
pub fn o_leftmost_first(occ: &[Occ]) -> Vec<Occ> {
    let mut v = Vec::new();
    let mut pos = 0;
    loop {
        let best = occ
            .iter()
            .filter(|o| o.0 >= pos)
            .min_by(|a, b| a.0.cmp(&b.0).then(a.2.cmp(&b.2)));
        match best {
            Some(&o) => {
                v.push(o);
                pos = o.1;
            }
            None => return v,
        }
    }
}

/// No-suffix overlapping: for each end position that has an occurrence, the longest one.
pub fn o_no_suffix(occ: &[Occ]) -> Vec<Occ> {
    let mut best: BTreeMap<usize, Occ> = BTreeMap::new();
    for &o in occ {
        let e = best.entry(o.1).or_insert(o);
        if o.0 < e.0 {
            *e = o;
        }
    }
    best.into_values().collect()
}

pub fn with_values(occ: &[Occ], vals: &[u32]) -> Vec<(usize, usize, u64)> {
    occ.iter()
        .map(|&(s, e, i)| (s, e, u64::from(vals[i])))
        .collect()
}

// ------------------------------------------------------------------------------------------------
// Textbook Aho-Corasick over u32 labels (bytes or code points).

#[derive(Clone, Debug, Default)]
pub struct RefNode {
    pub edges: BTreeMap<u32, usize>,
    pub fail: usize,
    pub depth: usize,
    /// byte length of the node's string
    pub blen: usize,
    pub parent: usize,
    pub label: u32,
    /// pattern index ending exactly here
    pub term: Option<usize>,
    /// the next node on the fail chain (excluding self) that is terminal; usize::MAX if none
    pub out_link: usize,
}

pub struct RefAc {
    pub nodes: Vec<RefNode>,
}

pub const NONE: usize = usize::MAX;

impl RefAc {
    /// `pats[i]` is a label sequence; `wid(label)` is the byte width of a label.
    pub fn new(pats: &[Vec<u32>], wid: impl Fn(u32) -> usize) -> RefAc {
        let mut nodes = vec![RefNode {
            out_link: NONE,
            ..RefNode::default()
        }];
        for (i, p) in pats.iter().enumerate() {
            let mut cur = 0usize;
            for &c in p {
                cur = match nodes[cur].edges.get(&c) {
                    Some(&n) => n,
                    None => {
                        let n = nodes.len();
                        let d = nodes[cur].depth + 1;
                        let bl = nodes[cur].blen + wid(c);
                        nodes.push(RefNode {
                            depth: d,
                            blen: bl,
                            parent: cur,
                            label: c,
                            out_link: NONE,
                            ..RefNode::default()
                        });
                        nodes[cur].edges.insert(c, n);
                        n
                    }
                };
            }
            assert!(nodes[cur].term.is_none(), "reference AC: duplicate pattern");
            nodes[cur].term = Some(i);
        }
        // BFS fail links
        let mut q: Vec<usize> = nodes[0].edges.values().copied().collect();
        let mut qi = 0;
        while qi < q.len() {
            let u = q[qi];
            qi += 1;
            let f = nodes[u].fail;
            nodes[u].out_link = if nodes[f].term.is_some() {
                f
            } else {
                nodes[f].out_link
            };
            let edges: Vec<(u32, usize)> = nodes[u].edges.iter().map(|(&c, &n)| (c, n)).collect();
            for (c, v) in edges {
                let mut f = nodes[u].fail;
                let fv = loop {
                    if let Some(&n) = nodes[f].edges.get(&c) {
                        if n != v {
                            break n;
                        }
                    }
                    if f == 0 {
                        break 0;
                    }
                    f = nodes[f].fail;
                };
                // children of the root fail to the root
                nodes[v].fail = if u == 0 { 0 } else { fv };
                q.push(v);
            }
        }
        RefAc { nodes }
    }

    pub fn from_bytes(pats: &[Vec<u8>]) -> RefAc {
        let p: Vec<Vec<u32>> = pats
            .iter()
            .map(|p| p.iter().map(|&b| u32::from(b)).collect())
            .collect();
        RefAc::new(&p, |_| 1)
    }

    pub fn from_chars(pats: &[Vec<u8>]) -> RefAc {
        let p: Vec<Vec<u32>> = pats
            .iter()
            .map(|p| {
                std::str::from_utf8(p)
                    .expect("utf8")
                    .chars()
                    .map(u32::from)
                    .collect()
            })
            .collect();
        RefAc::new(&p, |c| char::from_u32(c).unwrap().len_utf8())
    }

    #[inline]
    pub fn delta(&self, mut s: usize, c: u32) -> usize {
        loop {
            if let Some(&n) = self.nodes[s].edges.get(&c) {
                return n;
            }
            if s == 0 {
                return 0;
            }
            s = self.nodes[s].fail;
        }
    }

    /// Number of fail hops the textbook goto/fail loop takes on (s, c).
    pub fn hops(&self, mut s: usize, c: u32) -> usize {
        let mut h = 0;
        loop {
            if self.nodes[s].edges.contains_key(&c) || s == 0 {
                return h;
            }
            s = self.nodes[s].fail;
            h += 1;
        }
    }

    /// Pattern indices that end at node `s`, longest first.
    pub fn outputs(&self, s: usize) -> Vec<usize> {
        let mut v = Vec::new();
        let mut cur = if self.nodes[s].term.is_some() {
            s
        } else {
            self.nodes[s].out_link
        };
        while cur != NONE {
            v.push(self.nodes[cur].term.unwrap());
            cur = self.nodes[cur].out_link;
        }
        v
    }

    /// The string (as labels) spelled by node `s`.
    pub fn string(&self, mut s: usize) -> Vec<u32> {
        let mut v = Vec::new();
        while s != 0 {
            v.push(self.nodes[s].label);
            s = self.nodes[s].parent;
        }
        v.reverse();
        v
    }

    /// All occurrences in a haystack given as labels with byte widths (fast oracle for long
    /// haystacks / large pattern sets). `plen[i]` = byte length of pattern i.
    pub fn occurrences(&self, hay: &[(u32, usize)], plen: &[usize]) -> Vec<Occ> {
        let mut v = Vec::new();
        let mut s = 0usize;
        let mut end = 0usize;
        for &(c, w) in hay {
            end += w;
            s = self.delta(s, c);
            for i in self.outputs(s) {
                v.push((end - plen[i], end, i));
            }
        }
        v
    }
}

pub fn labels_of(variant_char: bool, hay: &[u8]) -> Vec<(u32, usize)> {
    if variant_char {
        std::str::from_utf8(hay)
            .expect("utf8")
            .chars()
            .map(|c| (u32::from(c), c.len_utf8()))
            .collect()
    } else {
        hay.iter().map(|&b| (u32::from(b), 1)).collect()
    }
}

pub fn encode_label(variant_char: bool, c: u32, out: &mut Vec<u8>) {
    if variant_char {
        let ch = char::from_u32(c).unwrap();
        let mut b = [0u8; 4];
        out.extend_from_slice(ch.encode_utf8(&mut b).as_bytes());
    } else {
        out.push(c as u8);
    }
}

// ------------------------------------------------------------------------------------------------
// Linear-time versions of the oracles for long haystacks. Input: all occurrences in the order the
// reference automaton lists them (end ascending, longest first). They are validated against the
// definitional (quadratic) versions on every small-scope run (see `fast_oracles_agree`).

pub fn f_overlapping(occ: &[Occ]) -> Vec<Occ> {
    occ.to_vec()
}

pub fn f_no_suffix(occ: &[Occ]) -> Vec<Occ> {
    let mut v: Vec<Occ> = Vec::new();
    for &o in occ {
        if v.last().map_or(true, |l| l.1 != o.1) {
            v.push(o);
        }
    }
    v
}

pub fn f_find(occ: &[Occ]) -> Vec<Occ> {
    // earliest end, then longest, among occurrences starting at or after the previous end
    let mut v = Vec::new();
    let mut pos = 0;
    for &o in occ {
        if o.0 >= pos {
            v.push(o);
            pos = o.1;
        }
    }
    v
}

fn f_leftmost(occ: &[Occ], n: usize, better: impl Fn(&Occ, &Occ) -> bool) -> Vec<Occ> {
    // best occurrence per start position
    let mut best: Vec<Option<Occ>> = vec![None; n + 1];
    for &o in occ {
        match &best[o.0] {
            Some(b) if !better(&o, b) => {}
            _ => best[o.0] = Some(o),
        }
    }
    let mut v = Vec::new();
    let mut pos = 0;
    while pos <= n {
        match best[pos] {
            Some(o) => {
                v.push(o);
                pos = o.1;
            }
            None => pos += 1,
        }
    }
    v
}

pub fn f_leftmost_longest(occ: &[Occ], n: usize) -> Vec<Occ> {
    f_leftmost(occ, n, |a, b| a.1 > b.1)
}

pub fn f_leftmost_first(occ: &[Occ], n: usize) -> Vec<Occ> {
    f_leftmost(occ, n, |a, b| a.2 < b.2)
}

/// Self-check of the fast oracles against the definitional ones.
pub fn fast_oracles_agree(occ_any_order: &[Occ], n: usize) -> bool {
    let o = o_overlapping(occ_any_order);
    f_overlapping(&o) == o
        && f_no_suffix(&o) == o_no_suffix(occ_any_order)
        && f_find(&o) == o_find(occ_any_order)
        && f_leftmost_longest(&o, n) == o_leftmost_longest(occ_any_order)
        && f_leftmost_first(&o, n) == o_leftmost_first(occ_any_order)
}

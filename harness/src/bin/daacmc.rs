use harness::{e2, props, util};
use std::time::Instant;

fn main() {
    let args: Vec<String> = std::env::args().collect();
    if args.len() < 2 {
        eprintln!("usage: daacmc check <ID> quick|thorough | replay <path>");
        std::process::exit(2);
    }
    util::install_guards(90);
    match args[1].as_str() {
        "check" => {
            let prop = args[2].as_str();
            // the tier named on the command line wins; VERIF_TIER only fills in when none is given
            let tier: String = match args.get(3).map(String::as_str) {
                Some(t) if t == "quick" || t == "thorough" => t.to_string(),
                _ => std::env::var("VERIF_TIER").ok().filter(|t| t == "quick" || t == "thorough").unwrap_or_else(|| "quick".to_string()),
            };
            util::set_run_context(prop, &tier);
            let t0 = Instant::now();
            let res = std::panic::catch_unwind(|| props::run_property(prop, &tier));
            let out = match res {
                Ok(Some(o)) => o,
                Ok(None) => {
                    eprintln!("unknown property {prop}");
                    std::process::exit(2);
                }
                Err(_) => {
                    // a panic that escaped the per-case guards: a verdict only if violations were
                    // already reported, otherwise a machinery failure
                    let reported = util::violations_emitted();
                    eprintln!("MACHINERY: the harness panicked after {reported} reported violation(s): {}", util::take_last_panic().unwrap_or_default());
                    std::process::exit(if reported > 0 { 1 } else { 2 });
                }
            };
            let wall = t0.elapsed().as_secs_f64();
            props::finish(prop, &tier, &out, wall);
            for k in &out.acc.known {
                println!("KNOWN-FINDING: property={prop} {k}");
            }
            println!(
                "{prop} {tier}: evaluations={} nontrivial={} states={} transitions={} traces={} outcomes={} violations={} wall={:.1}s",
                out.acc.evals, out.acc.nontrivial, out.acc.states, out.acc.transitions, out.acc.traces,
                out.acc.outcomes.len(), out.acc.violations.len(), wall
            );
            for (k, v) in &out.acc.counters {
                println!("  {k} = {v}");
            }
            std::process::exit(if out.acc.violations.is_empty() { 0 } else { 1 });
        }
        "replay" => {
            let txt = std::fs::read_to_string(&args[2]).expect("read replay file");
            let case: serde_json::Value = serde_json::from_str(&txt).expect("json");
            let failed = match case["engine"].as_str().unwrap_or("") {
                "enum" => e2::replay(&case),
                "table" => props::replay_table(&case),
                "collections" => harness::props3::replay_collections(&case),
                "lazy" => harness::props3::replay_lazy(&case),
                "orders" => harness::props3::replay_orders(&case),
                "merges" => harness::props3::replay_merges(&case),
                "scale" => harness::scale::replay_scale(&case),
                "cli" => harness::e6::replay(&case),
                "bisim" => harness::props2::replay_bisim(&case),
                "roundtrip" => harness::props2::replay_roundtrip(&case),
                "shifty" => harness::props2::replay_shifty(&case),
                e => {
                    eprintln!("unknown engine {e}");
                    std::process::exit(2);
                }
            };
            println!("replay: {}", if failed { "STILL FAILS" } else { "passes" });
            std::process::exit(if failed { 1 } else { 0 });
        }
        _ => std::process::exit(2),
    }
}

//! Value-type matrix for C06 / C09: every built-in value type (and two user-defined fixed-width
//! `Serializable` types) x variants x match kinds x search methods x value assignments, before and
//! after a serialisation round trip. Kept in its own binary so that the other checks do not pay for
//! its monomorphisation.

use daachorse::{
    CharwiseDoubleArrayAhoCorasick as CA, CharwiseDoubleArrayAhoCorasickBuilder as CBld,
    DoubleArrayAhoCorasick as BA, DoubleArrayAhoCorasickBuilder as BBld, Empty, Serializable,
};
use harness::auto::{Kind, Method, Variant};
use harness::e2::{self, Scope};
use harness::enumr::{self, Emb, Haystacks, Order};
use harness::oracle;
use harness::util::{self, hex, in_lib, par_for, set_case, Acc};
use serde_json::{json, Value};

trait VT: Copy + Send + Sync + 'static + Serializable + TryFrom<usize> {
    const NAME: &'static str;
    fn cands() -> Vec<Self>;
    fn same(a: &Self, b: &Self) -> bool;
    fn show(&self) -> String;
    const HAS_EQ: bool = true;
}

macro_rules! vt_unsigned {
    ($($t:ty),*) => {$(
        impl VT for $t {
            const NAME: &'static str = stringify!($t);
            fn cands() -> Vec<Self> { vec![0, 1, <$t>::MAX] }
            fn same(a: &Self, b: &Self) -> bool { a == b }
            fn show(&self) -> String { format!("{self}") }
        }
    )*};
}
macro_rules! vt_signed {
    ($($t:ty),*) => {$(
        impl VT for $t {
            const NAME: &'static str = stringify!($t);
            fn cands() -> Vec<Self> { vec![<$t>::MIN, -1, 0, <$t>::MAX] }
            fn same(a: &Self, b: &Self) -> bool { a == b }
            fn show(&self) -> String { format!("{self}") }
        }
    )*};
}
vt_unsigned!(u8, u16, u32, u64, u128, usize);
vt_signed!(i8, i16, i32, i64, i128, isize);

impl VT for Empty {
    const NAME: &'static str = "Empty";
    fn cands() -> Vec<Self> {
        vec![Empty]
    }
    fn same(_: &Self, _: &Self) -> bool {
        true
    }
    fn show(&self) -> String {
        "Empty".into()
    }
    const HAS_EQ: bool = false;
}

/// User-defined fixed-width value: 3 bytes.
#[derive(Clone, Copy, Debug, PartialEq, Eq, Hash)]
struct V3([u8; 3]);
impl Serializable for V3 {
    fn serialize_to_vec(&self, dst: &mut Vec<u8>) {
        dst.extend_from_slice(&self.0);
    }
    fn deserialize_from_slice(src: &[u8]) -> (Self, &[u8]) {
        (V3([src[0], src[1], src[2]]), &src[3..])
    }
    fn serialized_bytes() -> usize {
        3
    }
}
impl TryFrom<usize> for V3 {
    type Error = ();
    fn try_from(i: usize) -> Result<Self, ()> {
        if i < 1 << 24 {
            Ok(V3([(i & 0xff) as u8, ((i >> 8) & 0xff) as u8, ((i >> 16) & 0xff) as u8]))
        } else {
            Err(())
        }
    }
}
impl VT for V3 {
    const NAME: &'static str = "user3";
    fn cands() -> Vec<Self> {
        vec![V3([0, 0, 0]), V3([1, 0, 0xff]), V3([0xff, 0xff, 0xff])]
    }
    fn same(a: &Self, b: &Self) -> bool {
        a == b
    }
    fn show(&self) -> String {
        format!("{:?}", self.0)
    }
}

/// User-defined value whose in-memory size (4) differs from its serialized width (3).
#[derive(Clone, Copy, Debug, PartialEq, Eq, Hash)]
struct Tag {
    kind: u8,
    id: u16,
}
impl Serializable for Tag {
    fn serialize_to_vec(&self, dst: &mut Vec<u8>) {
        dst.push(self.kind);
        dst.extend_from_slice(&self.id.to_le_bytes());
    }
    fn deserialize_from_slice(src: &[u8]) -> (Self, &[u8]) {
        (Tag { kind: src[0], id: u16::from_le_bytes([src[1], src[2]]) }, &src[3..])
    }
    fn serialized_bytes() -> usize {
        3
    }
}
impl TryFrom<usize> for Tag {
    type Error = ();
    fn try_from(i: usize) -> Result<Self, ()> {
        Ok(Tag { kind: (i % 251) as u8, id: (i % 65521) as u16 })
    }
}
impl VT for Tag {
    const NAME: &'static str = "user_tag";
    fn cands() -> Vec<Self> {
        vec![Tag { kind: 0, id: 0 }, Tag { kind: 0xff, id: 1 }, Tag { kind: 7, id: 0xfffe }]
    }
    fn same(a: &Self, b: &Self) -> bool {
        a == b
    }
    fn show(&self) -> String {
        format!("({}, {})", self.kind, self.id)
    }
}

/// User-defined fixed-width value: 10 bytes (u64 + u16).
#[derive(Clone, Copy, Debug, PartialEq, Eq, Hash)]
struct V10(u64, u16);
impl Serializable for V10 {
    fn serialize_to_vec(&self, dst: &mut Vec<u8>) {
        dst.extend_from_slice(&self.0.to_be_bytes());
        dst.extend_from_slice(&self.1.to_le_bytes());
    }
    fn deserialize_from_slice(src: &[u8]) -> (Self, &[u8]) {
        let a = u64::from_be_bytes(src[..8].try_into().unwrap());
        let b = u16::from_le_bytes(src[8..10].try_into().unwrap());
        (V10(a, b), &src[10..])
    }
    fn serialized_bytes() -> usize {
        10
    }
}
impl TryFrom<usize> for V10 {
    type Error = ();
    fn try_from(i: usize) -> Result<Self, ()> {
        Ok(V10(i as u64, (i % 7) as u16))
    }
}
impl VT for V10 {
    const NAME: &'static str = "user10";
    fn cands() -> Vec<Self> {
        vec![V10(0, 0), V10(u64::MAX, 1), V10(0x0102_0304_0506_0708, 0xfffe)]
    }
    fn same(a: &Self, b: &Self) -> bool {
        a == b
    }
    fn show(&self) -> String {
        format!("({}, {})", self.0, self.1)
    }
}

enum TA<V> {
    B(BA<V>),
    C(CA<V>),
}

type TM<V> = (usize, usize, V);

impl<V: VT> TA<V> {
    fn build(variant: Variant, kind: Kind, nfb: Option<u32>, pats: &[Vec<u8>], vals: Option<&[V]>) -> Result<Self, String> {
        in_lib(|| match variant {
            Variant::Byte => {
                let mut b = BBld::new().match_kind(kind.mk());
                if let Some(n) = nfb {
                    b = b.num_free_blocks(n);
                }
                match vals {
                    Some(v) => b.build_with_values(pats.iter().zip(v.iter().copied())),
                    None => b.build(pats),
                }
                .map(TA::B)
                .map_err(|e| format!("{e}"))
            }
            Variant::Char => {
                let sp: Vec<&str> = pats.iter().map(|p| std::str::from_utf8(p).unwrap()).collect();
                let mut b = CBld::new().match_kind(kind.mk());
                if let Some(n) = nfb {
                    b = b.num_free_blocks(n);
                }
                match vals {
                    Some(v) => b.build_with_values(sp.iter().zip(v.iter().copied())),
                    None => b.build(&sp),
                }
                .map(TA::C)
                .map_err(|e| format!("{e}"))
            }
        })
    }
    fn run(&self, m: Method, hay: &[u8]) -> Vec<TM<V>> {
        let cap = 512 * (hay.len() + 4);
        macro_rules! col {
            ($it:expr) => {
                $it.take(cap).map(|m| (m.start(), m.end(), m.value())).collect()
            };
        }
        in_lib(|| match self {
            TA::B(a) => match m {
                Method::Find => col!(a.find_iter(hay)),
                Method::FindIt => col!(a.find_iter_from_iter(hay.iter().copied())),
                Method::Ovl => col!(a.find_overlapping_iter(hay)),
                Method::OvlIt => col!(a.find_overlapping_iter_from_iter(hay.iter().copied())),
                Method::NoSuf => col!(a.find_overlapping_no_suffix_iter(hay)),
                Method::NoSufIt => col!(a.find_overlapping_no_suffix_iter_from_iter(hay.iter().copied())),
                Method::Lm => col!(a.leftmost_find_iter(hay)),
            },
            TA::C(a) => {
                let s = std::str::from_utf8(hay).unwrap();
                unsafe {
                    match m {
                        Method::Find => col!(a.find_iter(s)),
                        Method::FindIt => col!(a.find_iter_from_iter(s.bytes())),
                        Method::Ovl => col!(a.find_overlapping_iter(s)),
                        Method::OvlIt => col!(a.find_overlapping_iter_from_iter(s.bytes())),
                        Method::NoSuf => col!(a.find_overlapping_no_suffix_iter(s)),
                        Method::NoSufIt => col!(a.find_overlapping_no_suffix_iter_from_iter(s.bytes())),
                        Method::Lm => col!(a.leftmost_find_iter(s)),
                    }
                }
            }
        })
    }
    fn serialize(&self) -> Vec<u8> {
        in_lib(|| match self {
            TA::B(a) => a.serialize(),
            TA::C(a) => a.serialize(),
        })
    }
    fn deserialize(variant: Variant, src: &[u8]) -> (Self, usize, usize) {
        in_lib(|| match variant {
            Variant::Byte => {
                let (a, rest) = unsafe { BA::<V>::deserialize_unchecked(src) };
                (TA::B(a), rest.as_ptr() as usize - src.as_ptr() as usize, rest.len())
            }
            Variant::Char => {
                let (a, rest) = unsafe { CA::<V>::deserialize_unchecked(src) };
                (TA::C(a), rest.as_ptr() as usize - src.as_ptr() as usize, rest.len())
            }
        })
    }
}

fn case_json<V: VT>(variant: Variant, kind: Kind, pats: &[Vec<u8>], assign: Option<&[usize]>) -> Value {
    json!({
        "value_type": V::NAME, "variant": variant.name(), "kind": kind.name(),
        "patterns": pats.iter().map(|p| hex(p)).collect::<Vec<_>>(),
        "assignment": assign,
    })
}

/// Checks every match of one automaton on one haystack. `vals[i]` = value of pattern i.
#[allow(clippy::too_many_arguments)]
fn check_matches<V: VT>(
    prop: &str,
    a: &TA<V>,
    variant: Variant,
    kind: Kind,
    pats: &[Vec<u8>],
    vals: &[V],
    assign: Option<&[usize]>,
    hay: &[u8],
    restored: bool,
    acc: &mut Acc,
) {
    let occ = oracle::occurrences(pats, hay);
    for &m in Method::for_kind(kind) {
        let exp = e2::expected_occ(m, kind, &occ);
        let got = a.run(m, hay);
        acc.traces += 1;
        let mut bad: Option<String> = None;
        for g in &got {
            if !(g.0 < g.1 && g.1 <= hay.len()) {
                bad = Some(format!("match ({}, {}) violates 0 <= start < end <= {}", g.0, g.1, hay.len()));
                break;
            }
            if !pats.iter().any(|p| p.as_slice() == &hay[g.0..g.1]) {
                bad = Some(format!("haystack[{}..{}] is not a registered pattern", g.0, g.1));
                break;
            }
        }
        if bad.is_none() {
            if got.len() != exp.len() {
                bad = Some(format!("{} matches, the oracle lists {}", got.len(), exp.len()));
            } else {
                for (g, e) in got.iter().zip(exp.iter()) {
                    if (g.0, g.1) != (e.0, e.1) {
                        bad = Some(format!("match ({}, {}) where the oracle has ({}, {})", g.0, g.1, e.0, e.1));
                        break;
                    }
                    if !V::same(&g.2, &vals[e.2]) {
                        bad = Some(format!(
                            "match ({}, {}) of pattern #{} carries value {} but {} was registered",
                            g.0, g.1, e.2, g.2.show(), vals[e.2].show()
                        ));
                        break;
                    }
                }
            }
        }
        if let Some(w) = bad {
            let mut c = case_json::<V>(variant, kind, pats, assign);
            let o = c.as_object_mut().unwrap();
            o.insert("haystack".into(), json!(hex(hay)));
            o.insert("method".into(), json!(m.name()));
            o.insert("restored".into(), json!(restored));
            acc.violate(
                prop,
                "types",
                format!("{} [{} {} {} restored={}] patterns {} haystack {:?}: {w}", m.name(), V::NAME, variant.name(), kind.name(), restored, e2::show_pats(pats), e2::show(hay)),
                c,
            );
            return;
        }
    }
}

/// Round trip of one automaton (C09): tails, equality, byte identity.
fn round_trip<V: VT>(a: &TA<V>, variant: Variant, kind: Kind, pats: &[Vec<u8>], assign: Option<&[usize]>, acc: &mut Acc) -> Option<TA<V>> {
    let bytes = a.serialize();
    let mut out = None;
    let tails: [&[u8]; 4] = [&[], &[0], &[0xff, 0xff, 0xff], &bytes[..bytes.len().min(7)]];
    for tail in tails {
        let mut src = bytes.clone();
        src.extend_from_slice(tail);
        let rt = std::panic::catch_unwind(std::panic::AssertUnwindSafe(|| TA::<V>::deserialize(variant, &src)));
        acc.count("round_trips", 1);
        let (r, off, rest) = match rt {
            Ok(x) => x,
            Err(_) => {
                let msg = util::take_last_panic().unwrap_or_default();
                let mut c = case_json::<V>(variant, kind, pats, assign);
                c.as_object_mut().unwrap().insert("tail".into(), json!(hex(tail)));
                c.as_object_mut().unwrap().insert("check".into(), json!("roundtrip"));
                acc.violate("C09", "types", format!("[{} {} {}] patterns {}: deserialize_unchecked panicked on the bytes produced by serialize: {msg}", V::NAME, variant.name(), kind.name(), e2::show_pats(pats)), c);
                return None;
            }
        };
        let mut bad = None;
        if off != bytes.len() || rest != tail.len() {
            bad = Some(format!("deserialize consumed {off} of {} bytes, remainder {rest} (tail {})", bytes.len(), tail.len()));
        } else if r.serialize() != bytes {
            bad = Some("serialize(restored) differs from the original bytes".to_string());
        } else if V::HAS_EQ {
            let eq = match (&r, a) {
                (TA::B(x), TA::B(y)) => eq_b(x, y),
                (TA::C(x), TA::C(y)) => eq_c(x, y),
                _ => false,
            };
            if !eq {
                bad = Some("restored automaton != original".to_string());
            }
        }
        if let Some(w) = bad {
            let mut c = case_json::<V>(variant, kind, pats, assign);
            c.as_object_mut().unwrap().insert("tail".into(), json!(hex(tail)));
            c.as_object_mut().unwrap().insert("check".into(), json!("roundtrip"));
            acc.violate("C09", "types", format!("[{} {} {}] patterns {}: {w}", V::NAME, variant.name(), kind.name(), e2::show_pats(pats)), c);
            return None;
        }
        if tail.is_empty() {
            out = Some(r);
        }
    }
    // unaligned start of the image inside a larger buffer
    for lead in 1..=3usize {
        let mut buf = vec![0xa5u8; lead];
        buf.extend_from_slice(&bytes);
        let rt = std::panic::catch_unwind(std::panic::AssertUnwindSafe(|| TA::<V>::deserialize(variant, &buf[lead..])));
        let okk = match rt {
            Ok((r, off, rest)) => off == bytes.len() && rest == 0 && r.serialize() == bytes,
            Err(_) => {
                let _ = util::take_last_panic();
                false
            }
        };
        if !okk {
            let mut c = case_json::<V>(variant, kind, pats, assign);
            c.as_object_mut().unwrap().insert("check".into(), json!("roundtrip"));
            acc.violate("C09", "types", format!("[{} {} {}] patterns {}: an image that starts {lead} byte(s) into a buffer is not restored", V::NAME, variant.name(), kind.name(), e2::show_pats(pats)), c);
            return None;
        }
    }
    out
}

// `==` needs V: PartialEq, which `Empty` does not provide: compare through the byte image there.
fn eq_b<V: VT>(x: &BA<V>, y: &BA<V>) -> bool {
    x.serialize() == y.serialize() && x.num_states() == y.num_states() && x.heap_bytes() == y.heap_bytes()
}
fn eq_c<V: VT>(x: &CA<V>, y: &CA<V>) -> bool {
    x.serialize() == y.serialize() && x.num_states() == y.num_states() && x.heap_bytes() == y.heap_bytes()
}

macro_rules! typed_eq {
    ($($t:ty),*) => {
        /// Structural equality (`==`) where the value type has it.
        fn typed_eq_check(acc: &mut Acc) {
            $(
                for variant in Variant::ALL {
                    for kind in Kind::ALL {
                        let pats: Vec<Vec<u8>> = vec![b"ab".to_vec(), b"b".to_vec(), "\u{4e16}a".as_bytes().to_vec()];
                        let vals: Vec<$t> = <$t as VT>::cands().into_iter().cycle().take(3).collect();
                        let a = TA::<$t>::build(variant, kind, None, &pats, Some(&vals)).unwrap();
                        let bytes = a.serialize();
                        let (r, _, _) = TA::<$t>::deserialize(variant, &bytes);
                        let same = match (&a, &r) {
                            (TA::B(x), TA::B(y)) => x == y,
                            (TA::C(x), TA::C(y)) => x == y,
                            _ => false,
                        };
                        acc.evals += 1;
                        if !same {
                            acc.violate("C09", "types", format!("restored automaton != original ({} {} {})", <$t as VT>::NAME, variant.name(), kind.name()),
                                e2::with(case_json::<$t>(variant, kind, &pats, Some(&[0, 1, 2])), "check", json!("roundtrip")));
                        }
                    }
                }
            )*
        }
    };
}
typed_eq!(u8, u16, u32, u64, u128, usize, i8, i16, i32, i64, i128, isize, V3, V10, Tag);

fn sweep_type<V: VT>(thorough: bool, which: &str) -> Acc {
    if thorough {
        return sweep_type_scope::<V>(Scope::new(2, 3, 3, Order::SetsBothWays, 5, 1), which);
    }
    let mut acc = sweep_type_scope::<V>(Scope::new(2, 3, 2, Order::Sets, 4, 1), which);
    acc.merge(sweep_type_scope::<V>(Scope::new(2, 2, 3, Order::Sets, 4, 1), which));
    acc
}

fn sweep_type_scope<V: VT>(scope: Scope, which: &str) -> Acc {
    let embs: Vec<Emb> = vec![
        enumr::byte_embeddings(0)[1].clone(),
        enumr::char_embeddings()[0].clone(),
        enumr::char_embeddings()[3].clone(),
    ];
    let cands = V::cands();
    let nc = cands.len();
    let prop: &str = if which == "C09" { "C09" } else { "C06" }; // the C07 pass executes the C06 sweep on a thinned set of assignments
    let mut acc = e2::run_scope(&scope, &embs, |ctx, acc| {
        let n = ctx.pats.len();
        // every function patterns -> candidates
        let total = nc.pow(n as u32);
        // all haystacks once
        let mut hays: Vec<Vec<u8>> = Vec::new();
        let mut hs = Haystacks::new(scope.alpha(), scope.n);
        while let Some(h) = hs.next() {
            hays.push(ctx.emb.mapped(h));
        }
        let slot = util::my_slot();
        for variant in Variant::ALL {
            if variant == Variant::Char && !ctx.emb.utf8 {
                continue;
            }
            // the C09 pass only needs a few assignments; the C06 pass needs them all
            let step = if which == "C09" { total.max(1).div_ceil(3) } else if which == "C07" { total.max(1).div_ceil(2) } else { 1 };
            for kind in Kind::ALL {
                for code in (0..total).step_by(step.max(1)) {
                    let assign: Vec<usize> = (0..n).map(|i| (code / nc.pow(i as u32)) % nc).collect();
                    let vals: Vec<V> = assign.iter().map(|&k| cands[k]).collect();
                    set_case(prop, "types", case_json::<V>(variant, kind, &ctx.pats, Some(&assign)));
                    let a = match TA::<V>::build(variant, kind, if code % 2 == 0 { None } else { Some(1) }, &ctx.pats, Some(&vals)) {
                        Ok(a) => a,
                        Err(e) => {
                            acc.violate("C10", "types", format!("valid collection rejected: {e}"), case_json::<V>(variant, kind, &ctx.pats, Some(&assign)));
                            continue;
                        }
                    };
                    acc.count("automata_built", 1);
                    acc.sample(|| e2::with(case_json::<V>(variant, kind, &ctx.pats, Some(&assign)), "values", json!(vals.iter().map(|v| v.show()).collect::<Vec<_>>())));
                    let repeated = (0..n).any(|i| assign[..i].contains(&assign[i]));
                    let restored = round_trip(&a, variant, kind, &ctx.pats, Some(&assign), acc);
                    for hay in &hays {
                        util::set_hay(&slot, hay);
                        acc.evals += 1;
                        if repeated || n == 1 {
                            acc.nontrivial += 1;
                        }
                        if which != "C09" {
                            check_matches(prop, &a, variant, kind, &ctx.pats, &vals, Some(&assign), hay, false, acc);
                        }
                        if let Some(r) = &restored {
                            check_matches(prop, r, variant, kind, &ctx.pats, &vals, Some(&assign), hay, true, acc);
                        }
                    }
                    if util::stopped() {
                        return;
                    }
                }
                // bare patterns: the value is the position in the input
                if which != "C09" {
                    set_case(prop, "types", case_json::<V>(variant, kind, &ctx.pats, None));
                    match TA::<V>::build(variant, kind, None, &ctx.pats, None) {
                        Ok(a) => {
                            let vals: Vec<V> = (0..n).map(|i| V::try_from(i).ok().unwrap()).collect();
                            for hay in &hays {
                                acc.evals += 1;
                                check_matches(prop, &a, variant, kind, &ctx.pats, &vals, None, hay, false, acc);
                            }
                        }
                        Err(e) => acc.violate("C10", "types", format!("valid collection rejected: {e}"), case_json::<V>(variant, kind, &ctx.pats, None)),
                    }
                }
            }
        }
    });
    acc.count(&format!("type_{}_scopes", V::NAME), 1);
    acc.notes.push(format!("{}: {}", V::NAME, scope.name()));
    acc
}

/// 256 one-byte patterns with u8 values (pattern #255 must carry 255), 128 with i8.
fn index_boundary(acc: &mut Acc) {
    for variant in Variant::ALL {
        let pats: Vec<Vec<u8>> = (0..256u32)
            .map(|i| {
                if variant == Variant::Byte {
                    vec![i as u8]
                } else {
                    char::from_u32(0x100 + i).unwrap().to_string().into_bytes()
                }
            })
            .collect();
        let hay: Vec<u8> = pats.iter().rev().flat_map(|p| p.iter().copied()).collect();
        for kind in Kind::ALL {
            let a = TA::<u8>::build(variant, kind, None, &pats, None).unwrap();
            let vals: Vec<u8> = (0..=255u8).collect();
            check_matches("C06", &a, variant, kind, &pats, &vals, None, &hay, false, acc);
            let p128 = &pats[..128];
            let h128: Vec<u8> = p128.iter().rev().flat_map(|p| p.iter().copied()).collect();
            let a = TA::<i8>::build(variant, kind, None, p128, None).unwrap();
            let vals: Vec<i8> = (0..=127i8).collect();
            check_matches("C06", &a, variant, kind, p128, &vals, None, &h128, false, acc);
            acc.evals += 2;
            acc.nontrivial += 2;
            // one pattern more than the type can number: the build must fail, or - if it succeeds -
            // every match must still carry the position of its pattern
            let mut p257 = pats.clone();
            p257.push(if variant == Variant::Byte { vec![0xfe, 0xfe] } else { "\u{4e16}\u{4e16}".as_bytes().to_vec() });
            if let Ok(a) = TA::<u8>::build(variant, kind, None, &p257, None) {
                let h: Vec<u8> = p257.iter().rev().flat_map(|p| p.iter().copied()).collect();
                for m in a.run(Method::for_kind(kind)[0], &h) {
                    if let Some(i) = p257.iter().position(|p| p.as_slice() == &h[m.0..m.1]) {
                        if usize::from(m.2) != i {
                            acc.violate("C06", "types", format!("257 bare patterns with value type u8 [{} {}]: pattern #{i} is reported with value {}", variant.name(), kind.name(), m.2),
                                json!({"value_type": "u8", "variant": variant.name(), "kind": kind.name(), "patterns": ["61"], "assignment": null, "haystack": "61", "method": "find_iter", "note": "index boundary case; re-run ./check C06 quick"}));
                            break;
                        }
                    }
                }
            }
        }
    }
}

fn replay(path: &str) -> bool {
    let txt = std::fs::read_to_string(path).expect("replay file");
    let case: Value = serde_json::from_str(&txt).expect("json");
    let t = case["value_type"].as_str().unwrap_or("u32").to_string();
    macro_rules! dispatch {
        ($($t:ty),*) => {
            $( if t == <$t as VT>::NAME { return replay_typed::<$t>(&case); } )*
        };
    }
    dispatch!(u8, u16, u32, u64, u128, usize, i8, i16, i32, i64, i128, isize, Empty, V3, V10, Tag);
    eprintln!("unknown value type {t}");
    std::process::exit(2);
}

fn replay_typed<V: VT>(case: &Value) -> bool {
    let variant = Variant::parse(case["variant"].as_str().unwrap());
    let kind = Kind::parse(case["kind"].as_str().unwrap());
    let pats: Vec<Vec<u8>> = case["patterns"].as_array().unwrap().iter().map(|p| util::unhex(p.as_str().unwrap())).collect();
    let assign: Option<Vec<usize>> = case["assignment"].as_array().map(|a| a.iter().map(|x| x.as_u64().unwrap() as usize).collect());
    let cands = V::cands();
    let vals: Vec<V> = match &assign {
        Some(a) => a.iter().map(|&k| cands[k % cands.len()]).collect(),
        None => (0..pats.len()).map(|i| V::try_from(i).ok().unwrap()).collect(),
    };
    let mut acc = Acc::new();
    let a = match TA::<V>::build(variant, kind, None, &pats, if assign.is_some() { Some(&vals) } else { None }) {
        Ok(a) => a,
        Err(e) => {
            println!("replay: build fails: {e}");
            return true;
        }
    };
    if case["check"].as_str() == Some("roundtrip") {
        round_trip(&a, variant, kind, &pats, assign.as_deref(), &mut acc);
        if V::HAS_EQ {
            typed_eq_check(&mut acc);
        }
    } else {
        let hay = util::unhex(case["haystack"].as_str().unwrap_or(""));
        let restored = case["restored"].as_bool().unwrap_or(false);
        if restored {
            let (r, _, _) = TA::<V>::deserialize(variant, &a.serialize());
            check_matches("C06", &r, variant, kind, &pats, &vals, assign.as_deref(), &hay, true, &mut acc);
        } else {
            check_matches("C06", &a, variant, kind, &pats, &vals, assign.as_deref(), &hay, false, &mut acc);
        }
    }
    !acc.violations.is_empty()
}

fn main() {
    let args: Vec<String> = std::env::args().collect();
    util::install_guards(90);
    if args.get(1).map(String::as_str) == Some("replay") {
        let failed = replay(&args[2]);
        println!("replay: {}", if failed { "STILL FAILS" } else { "passes" });
        std::process::exit(if failed { 1 } else { 0 });
    }
    let which = args.get(2).map(String::as_str).unwrap_or("C06").to_string();
    let thorough = args.get(3).map(String::as_str) == Some("thorough");
    let mut acc = Acc::new();
    macro_rules! all {
        ($($t:ty),*) => { $( if !util::stopped() {
            // a panic of the library outside the guarded calls must not lose the summary
            match std::panic::catch_unwind(std::panic::AssertUnwindSafe(|| sweep_type::<$t>(thorough, &which))) {
                Ok(a) => acc.merge(a),
                Err(_) => {
                    let msg = util::take_last_panic().unwrap_or_default();
                    acc.violate(&which, "types", format!("library code panicked during the {} sweep: {msg}", <$t as VT>::NAME), json!({"value_type": <$t as VT>::NAME, "check": "roundtrip", "variant": "bytewise", "kind": "standard", "patterns": ["61"], "assignment": [0]}));
                }
            }
        } )* };
    }
    all!(u8, u16, u32, u64, u128, usize, i8, i16, i32, i64, i128, isize, Empty, V3, V10, Tag);
    if which == "C09" {
        if std::panic::catch_unwind(std::panic::AssertUnwindSafe(|| typed_eq_check(&mut acc))).is_err() {
            let msg = util::take_last_panic().unwrap_or_default();
            acc.violate("C09", "types", format!("library code panicked during the round trip of a typed automaton: {msg}"), json!({"value_type": "user10", "check": "roundtrip", "variant": "bytewise", "kind": "standard", "patterns": ["6162", "62"], "assignment": [0, 1]}));
        }
    } else {
        index_boundary(&mut acc);
    }
    let sample = acc.nt_samples.first().or(acc.samples.first()).cloned().unwrap_or(json!(null));
    println!(
        "TYPES-SUMMARY {}",
        json!({
            "evals": acc.evals, "nontrivial": acc.nontrivial, "traces": acc.traces,
            "violations": acc.violations.len(),
            "counters": acc.counters, "notes": acc.notes, "sample": sample,
        })
    );
    let _ = par_for(0, |_, _| {});
    std::process::exit(if acc.violations.is_empty() { 0 } else { 1 });
}

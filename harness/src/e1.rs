//! E1 — explicit-state exploration of one built automaton: every reachable state x every label,
//! against a bounds-checked interpreter of the raw table (model side) whose every step is replayed
//! on the crate's own transition functions (conformance), and against the textbook automaton.

use crate::auto::{Auto, Kind, Variant};
use crate::e2::{self, Built};
use crate::oracle::{self, RefAc, NONE};
use crate::util::{self, hex, Acc};
use daachorse::verif::RawAutomaton;
use serde_json::{json, Value};

pub const INVALID_CODE: u32 = u32::MAX;
const ROOT: u32 = 0;
const DEAD: u32 = 1;

#[derive(Clone, Copy, Debug, Default)]
pub struct Want {
    /// trie structure, transition function and output chains equal the reference (C01/C02/C05/C06/..)
    pub structure: bool,
    /// fail links ranked by depth, output parents decreasing, amortised hop bound (C13)
    pub ranking: bool,
    /// state counts (C15)
    pub counts: bool,
}

impl Want {
    pub fn for_prop(prop: &str) -> Want {
        match prop {
            "C07" => Want::default(),
            "C13" => Want {
                ranking: true,
                ..Want::default()
            },
            "C15" => Want {
                counts: true,
                ..Want::default()
            },
            _ => Want {
                structure: true,
                ..Want::default()
            },
        }
    }
}

#[derive(Debug)]
pub enum Fault {
    Oob { what: &'static str, state: u32, index: u64 },
    Loop { state: u32 },
    DeadFail { state: u32 },
}

pub struct Interp<'a> {
    pub raw: &'a RawAutomaton<u32>,
    pub is_char: bool,
}

impl Interp<'_> {
    pub fn len(&self) -> usize {
        self.raw.states.len()
    }
    /// code of a label (byte value / code point); None = unmapped character
    pub fn code(&self, label: u32) -> Option<u32> {
        if self.is_char {
            self.raw
                .mapper_table
                .get(label as usize)
                .copied()
                .filter(|&c| c != INVALID_CODE)
        } else {
            Some(label)
        }
    }
    pub fn child(&self, s: u32, code: u32) -> Result<Option<u32>, Fault> {
        let st = self.raw.states.get(s as usize).ok_or(Fault::Oob {
            what: "state index",
            state: s,
            index: u64::from(s),
        })?;
        if st.base == 0 {
            return Ok(None);
        }
        let idx = st.base ^ code;
        let ch = self.raw.states.get(idx as usize).ok_or(Fault::Oob {
            what: "base ^ label",
            state: s,
            index: u64::from(idx),
        })?;
        let ok = if self.is_char {
            ch.check == s
        } else {
            ch.check == code
        };
        Ok(if ok { Some(idx) } else { None })
    }
    /// The goto/fail loop; returns (next state, fail hops).
    pub fn next(&self, mut s: u32, code: Option<u32>, leftmost: bool) -> Result<(u32, u32), Fault> {
        let Some(code) = code else {
            return Ok((ROOT, 0));
        };
        let mut hops = 0u32;
        loop {
            if let Some(n) = self.child(s, code)? {
                return Ok((n, hops));
            }
            if s == ROOT {
                return Ok((ROOT, hops));
            }
            let f = self.raw.states[s as usize].fail;
            if leftmost && f == DEAD {
                return Ok((ROOT, hops + 1));
            }
            if f as usize >= self.len() {
                return Err(Fault::Oob {
                    what: "fail index",
                    state: s,
                    index: u64::from(f),
                });
            }
            if !leftmost && f == DEAD {
                return Err(Fault::DeadFail { state: s });
            }
            s = f;
            hops += 1;
            if hops as usize > self.len() {
                return Err(Fault::Loop { state: s });
            }
        }
    }
    /// Walks an output chain with bounds checks; returns (value, length) records.
    pub fn chain(&self, s: u32, ranking: bool) -> Result<Vec<(u32, u32)>, Fault> {
        let mut v = Vec::new();
        let mut pos = self.raw.states[s as usize].output_pos;
        let mut steps = 0usize;
        while pos != 0 {
            let o = self.raw.outputs.get(pos as usize - 1).ok_or(Fault::Oob {
                what: "output position",
                state: s,
                index: u64::from(pos),
            })?;
            v.push((o.value, o.length));
            if ranking && o.parent >= pos {
                return Err(Fault::Loop { state: s });
            }
            pos = o.parent;
            steps += 1;
            if steps > self.raw.outputs.len() {
                return Err(Fault::Loop { state: s });
            }
        }
        Ok(v)
    }
}

/// Labels to explore: all 256 bytes, or every mapped character plus unmapped representatives.
pub fn label_set(raw: &RawAutomaton<u32>, is_char: bool) -> (Vec<u32>, Vec<u32>) {
    if !is_char {
        return ((0..256).collect(), vec![]);
    }
    let mut mapped = Vec::new();
    let mut first_unmapped = None;
    for (cp, &code) in raw.mapper_table.iter().enumerate() {
        if char::from_u32(cp as u32).is_none() {
            continue;
        }
        if code != INVALID_CODE {
            mapped.push(cp as u32);
        } else if first_unmapped.is_none() {
            first_unmapped = Some(cp as u32);
        }
    }
    let mut un = Vec::new();
    if let Some(u) = first_unmapped {
        un.push(u);
    }
    let tl = raw.mapper_table.len() as u32;
    for c in [tl.saturating_sub(1), tl, tl + 1, 0x7f, 0x80, 0x7ff, 0x800, 0xffff, 0x10000, 0x10ffff] {
        if char::from_u32(c).is_some()
            && raw
                .mapper_table
                .get(c as usize)
                .map_or(true, |&x| x == INVALID_CODE)
            && !un.contains(&c)
        {
            un.push(c);
        }
    }
    (mapped, un)
}

fn labels_to_bytes(is_char: bool, labels: &[u32]) -> Vec<u8> {
    let mut v = Vec::new();
    for &l in labels {
        oracle::encode_label(is_char, l, &mut v);
    }
    v
}

/// Patterns that can ever be reported (all, except the shadowed ones under leftmost-first).
pub fn reportable(kind: Kind, pats: &[Vec<u8>]) -> Vec<usize> {
    (0..pats.len())
        .filter(|&i| {
            kind != Kind::LF
                || !(0..i).any(|j| pats[i].len() > pats[j].len() && pats[i].starts_with(&pats[j]))
        })
        .collect()
}

/// Bookkeeping for the confirmation of structural differences through the public API.
#[derive(Default)]
pub struct Budget {
    pub tried: u32,
    pub confirmed: u32,
}
impl Budget {
    fn allow(&self) -> bool {
        self.confirmed < 2 && self.tried < 400
    }
}

pub struct Explored {
    pub refac: RefAc,
    /// reference node -> state index
    pub state_of: Vec<u32>,
    /// indices (into the original pattern list) of the reference's patterns
    pub rep: Vec<usize>,
}

/// A fault the bounds-checked interpreter found in the raw table (an index outside the table, a
/// fail chain or output chain that never ends) is made definitive by *executing* it: the real
/// search methods are run on the access haystack (plus one-label tails). With std's precondition
/// checks on, a real out-of-bounds read aborts inside library code and the panic hook reports it
/// (C07) with this case; a real endless loop is reported by the watchdog (C13). If the real code
/// survives, the interpreter does not describe it any more: that is counted, not alarmed.
fn fault_violation(
    prop_ctx: &str,
    f: &Fault,
    origin: &Value,
    b: &Built,
    path: &[u8],
    acc: &mut Acc,
) {
    let (prop, what) = match f {
        Fault::Oob { what, state, index } => (
            "C07",
            format!(
                "{what} {index} of reachable state {state} lies outside the table (len {})",
                b.auto.raw().states.len()
            ),
        ),
        Fault::Loop { state } => (
            "C13",
            format!("fail links / output parents reachable from state {state} do not decrease"),
        ),
        Fault::DeadFail { state } => (
            "C13",
            format!("reachable state {state} of a standard automaton fails to the dead state"),
        ),
    };
    let mut c = origin.clone();
    {
        let m = c.as_object_mut().unwrap();
        m.insert("found_by".into(), json!(prop_ctx));
        m.insert("table_fault".into(), json!(what));
    }
    let is_char = b.cfg.variant == Variant::Char;
    let mut tails: Vec<Vec<u8>> = vec![vec![]];
    if is_char {
        for t in ["a", "z", "\u{e9}", "\u{4e16}", "\u{10ffff}", "\u{0}"] {
            tails.push(t.as_bytes().to_vec());
        }
        if let Ok(s) = std::str::from_utf8(path) {
            for ch in s.chars().rev().take(3) {
                tails.push(ch.to_string().into_bytes());
            }
        }
    } else {
        for x in [0x00u8, 0x01, 0xff, 0x7a, 0x80] {
            tails.push(vec![x]);
        }
        for &x in path.iter().rev().take(3) {
            tails.push(vec![x]);
        }
    }
    let slot = util::my_slot();
    util::expect_hang(matches!(f, Fault::Loop { .. } | Fault::DeadFail { .. }));
    for t in &tails {
        let mut hay = path.to_vec();
        hay.extend_from_slice(t);
        // declared so that the hook / the watchdog attribute an abort or a hang to this case
        util::set_case(prop, "table", c.clone());
        util::set_hay(&slot, &hay);
        for &m in crate::auto::Method::for_kind(b.cfg.kind) {
            let _ = std::panic::catch_unwind(std::panic::AssertUnwindSafe(|| b.auto.run(m, &hay)));
            let _ = util::take_last_panic();
        }
    }
    util::expect_hang(false);
    acc.count("unconfirmed_table_faults", 1);
    if acc.notes.len() < 5 {
        acc.notes.push(format!("the table interpreter reports '{what}' but executing the searches on the access haystack neither aborted nor hung: the interpreter no longer describes the code (no alarm)"));
    }
}

/// Reference-free ranking analysis (C13): works on the automaton's own graph, so it also covers
/// automata whose structure differs from the reference.
///  * every state in the closure of the root under child edges (all labels) and fail links has a
///    fail chain that reaches the root (or the dead state, leftmost kinds) in at most `len` steps
///    and a finite output chain  =>  every search terminates;
///  * standard kind: phi(s) = max over all paths root->s of sum(fail hops - 1) stays <= 0, computed
///    by a longest-path worklist over the real transition graph  <=>  no haystack of n labels makes
///    the scan follow more than n fail links (<= 2n transitions). Exact for this automaton.
/// Every (state,label) step is also taken on the crate's own transition function, whose hop counter
/// must agree with the table.
pub fn check_ranking(prop: &str, b: &Built, pats: &[Vec<u8>], origin: &Value, acc: &mut Acc) -> bool {
    let is_char = b.cfg.variant == Variant::Char;
    let leftmost = b.cfg.kind != Kind::Std;
    let raw = b.auto.raw();
    let it = Interp { raw: &raw, is_char };
    let len = raw.states.len();
    if len == 0 {
        return false;
    }
    let (mapped, _) = label_set(&raw, is_char);
    // closure under child and fail
    let mut idx_of: Vec<u32> = vec![u32::MAX; len];
    let mut order: Vec<u32> = vec![0];
    let mut via: Vec<(u32, u32)> = vec![(u32::MAX, 0)]; // (predecessor position in `order`, label) for child edges
    idx_of[0] = 0;
    let mut qi = 0;
    while qi < order.len() {
        let s = order[qi];
        for &c in &mapped {
            let code = it.code(c).unwrap();
            match it.child(s, code) {
                Ok(Some(t)) => {
                    if idx_of[t as usize] == u32::MAX {
                        idx_of[t as usize] = order.len() as u32;
                        order.push(t);
                        via.push((qi as u32, c));
                    }
                }
                Ok(None) => {}
                Err(f) => {
                    fault_violation(prop, &f, origin, b, &[], acc);
                    return false;
                }
            }
        }
        let f = raw.states[s as usize].fail;
        if s != ROOT && !(leftmost && f == DEAD) {
            if f as usize >= len {
                fault_violation(prop, &Fault::Oob { what: "fail index", state: s, index: u64::from(f) }, origin, b, &[], acc);
                return false;
            }
            if idx_of[f as usize] == u32::MAX {
                idx_of[f as usize] = order.len() as u32;
                order.push(f);
                via.push((u32::MAX, 0));
            }
        }
        qi += 1;
    }
    let path_to = |pos: usize| -> Vec<u32> {
        let mut p = Vec::new();
        let mut cur = pos;
        let mut guard = 0;
        while via[cur].0 != u32::MAX && guard < len + 1 {
            p.push(via[cur].1);
            cur = via[cur].0 as usize;
            guard += 1;
        }
        p.reverse();
        p
    };
    // termination of the fail chain and the output chain of every state
    for (pos, &s) in order.iter().enumerate() {
        let mut cur = s;
        let mut steps = 0usize;
        while cur != ROOT {
            let f = raw.states[cur as usize].fail;
            if leftmost && f == DEAD {
                break;
            }
            if f as usize >= len {
                break; // reported by the closure above / C07
            }
            if !leftmost && f == DEAD {
                // the dead state of a standard automaton: byte-wise it fails to the root, char-wise
                // to itself (endless loop)
                if raw.states[DEAD as usize].fail == DEAD {
                    steps = len + 1;
                    break;
                }
            }
            cur = f;
            steps += 1;
            if steps > len {
                break;
            }
        }
        if steps > len {
            // the fail chain of s never reaches the root according to the stored table: executed on
            // the access haystack (+ tails) - a real endless loop is reported by the watchdog
            fault_violation(prop, &Fault::Loop { state: s }, origin, b, &labels_to_bytes(is_char, &path_to(pos)), acc);
            return false;
        }
        if let Err(fl) = it.chain(s, false) {
            fault_violation(prop, &fl, origin, b, &labels_to_bytes(is_char, &path_to(pos)), acc);
            return false;
        }
    }
    // transitions (+ conformance of the real loop and its hop counter)
    let nl = mapped.len();
    let mut next_t: Vec<u32> = vec![0; order.len() * nl];
    let mut hops_t: Vec<u32> = vec![0; order.len() * nl];
    for (pos, &s) in order.iter().enumerate() {
        for (ci, &c) in mapped.iter().enumerate() {
            let (n, h) = match it.next(s, it.code(c), leftmost) {
                Ok(x) => x,
                Err(fl) => {
                    fault_violation(prop, &fl, origin, b, &[], acc);
                    return false;
                }
            };
            acc.transitions += 1;
            let h0 = daachorse::verif::fail_hops();
            let real = b.auto.next(s, c, leftmost);
            let rh = daachorse::verif::fail_hops() - h0;
            acc.traces += 1;
            if real != n {
                // the model of the table no longer describes the code: not a verdict about C13
                acc.count("unconfirmed_model_out_of_date", 1);
                let _ = (n, real);
                return false;
            }
            if rh != u64::from(h) {
                // the measured count of the real loop is what the property is about
                acc.count("hop_count_differs_from_table_model", 1);
            }
            next_t[pos * nl + ci] = n;
            hops_t[pos * nl + ci] = rh.min(u64::from(u32::MAX)) as u32;
        }
        acc.states += 1;
        util::tick_progress();
    }
    if leftmost {
        return true;
    }
    // longest-path worklist: phi(s) <= 0 for every state
    let mut phi: Vec<i64> = vec![i64::MIN; order.len()];
    let mut pred: Vec<(u32, u32)> = vec![(u32::MAX, 0); order.len()];
    phi[0] = 0;
    let mut work: std::collections::VecDeque<u32> = std::collections::VecDeque::new();
    let mut queued = vec![false; order.len()];
    work.push_back(0);
    queued[0] = true;
    let mut relaxations = 0u64;
    while let Some(pos) = work.pop_front() {
        let pos = pos as usize;
        queued[pos] = false;
        for ci in 0..nl {
            let n = next_t[pos * nl + ci];
            let np = idx_of[n as usize];
            if np == u32::MAX {
                continue; // cannot happen: targets are in the closure
            }
            let np = np as usize;
            let v = phi[pos] + i64::from(hops_t[pos * nl + ci]) - 1;
            if v > phi[np] {
                relaxations += 1;
                phi[np] = v;
                pred[np] = (pos as u32, mapped[ci]);
                if v > 0 {
                    // witness haystack: follow the predecessor links
                    let mut labels = Vec::new();
                    let mut cur = np;
                    let mut guard = 0;
                    while pred[cur].0 != u32::MAX && guard < 4 * order.len() + 4 {
                        labels.push(pred[cur].1);
                        cur = pred[cur].0 as usize;
                        guard += 1;
                        if cur == 0 && phi[0] == 0 && pred[0].0 == u32::MAX {
                            break;
                        }
                    }
                    labels.reverse();
                    // a shortest witness, by dynamic programming over the path length (bounded)
                    {
                        let ns = order.len();
                        let cap = 200usize;
                        let mut best: Vec<i64> = vec![i64::MIN; ns];
                        best[0] = 0;
                        let mut preds: Vec<Vec<(u32, u32)>> = Vec::new();
                        'dp: for _l in 0..cap {
                            let mut nb: Vec<i64> = vec![i64::MIN; ns];
                            let mut pl: Vec<(u32, u32)> = vec![(u32::MAX, 0); ns];
                            for p in 0..ns {
                                if best[p] == i64::MIN {
                                    continue;
                                }
                                for ci in 0..nl {
                                    let q = idx_of[next_t[p * nl + ci] as usize] as usize;
                                    let v = best[p] + i64::from(hops_t[p * nl + ci]) - 1;
                                    if v > nb[q] {
                                        nb[q] = v;
                                        pl[q] = (p as u32, mapped[ci]);
                                    }
                                }
                            }
                            preds.push(pl);
                            best = nb;
                            if let Some(q) = (0..ns).find(|&q| best[q] > 0) {
                                let mut l2 = Vec::new();
                                let mut cur = q;
                                for layer in preds.iter().rev() {
                                    l2.push(layer[cur].1);
                                    cur = layer[cur].0 as usize;
                                }
                                l2.reverse();
                                labels = l2;
                                break 'dp;
                            }
                        }
                    }
                    let hay = labels_to_bytes(is_char, &labels);
                    // measured on the real iterator as well
                    let h0 = daachorse::verif::fail_hops();
                    let ran = std::panic::catch_unwind(std::panic::AssertUnwindSafe(|| b.auto.run(crate::auto::Method::NoSuf, &hay)));
                    let measured = if ran.is_ok() {
                        format!("{}", daachorse::verif::fail_hops() - h0)
                    } else {
                        let _ = util::take_last_panic();
                        "the search panicked".to_string()
                    };
                    let mut c = e2::case_json(&b.cfg, pats, if b.explicit_vals { Some(&b.vals) } else { None });
                    if let (Some(o), Some(src)) = (c.as_object_mut(), origin.as_object()) {
                        for k in ["family", "level", "seed"] {
                            if let Some(x) = src.get(k) {
                                o.insert(k.into(), x.clone());
                            }
                        }
                        if src.contains_key("family") {
                            o.remove("patterns");
                        }
                        o.insert("haystack".into(), json!(hex(&hay)));
                        o.insert("method".into(), json!("find_overlapping_no_suffix_iter"));
                        o.insert("check".into(), json!("hops"));
                    }
                    acc.violate("C13", "table",
                        format!("a haystack of {} labels makes the standard scan follow more than {} fail links (measured on the real iterator: {}), i.e. more than 2n transitions; haystack {:?}",
                            labels.len(), labels.len(), measured, e2::show(&hay)),
                        c);
                    return false;
                }
                if !queued[np] {
                    queued[np] = true;
                    work.push_back(np as u32);
                }
            }
        }
    }
    acc.count("phi_relaxations", relaxations);
    true
}

/// Explores one automaton. `origin` describes how to rebuild it (cfg + patterns or family).
/// Returns the pairing with the reference on success of the structural part.
pub fn check_table(
    prop: &str,
    b: &Built,
    pats: &[Vec<u8>],
    origin: &Value,
    acc: &mut Acc,
) -> Option<Explored> {
    let want = Want::for_prop(prop);
    if want.ranking && !check_ranking(prop, b, pats, origin, acc) {
        return None;
    }
    let is_char = b.cfg.variant == Variant::Char;
    let kind = b.cfg.kind;
    let leftmost = kind != Kind::Std;
    let raw = b.auto.raw();
    let it = Interp {
        raw: &raw,
        is_char,
    };
    let len = raw.states.len();
    let rep = reportable(kind, pats);
    let rpats: Vec<Vec<u8>> = rep.iter().map(|&i| pats[i].clone()).collect();
    let refac = if is_char {
        RefAc::from_chars(&rpats)
    } else {
        RefAc::from_bytes(&rpats)
    };
    let (mapped, unmapped) = label_set(&raw, is_char);
    acc.count("automata_explored", 1);
    let block = if is_char {
        raw.alphabet_size.next_power_of_two().max(2) as usize
    } else {
        256
    };
    let nblocks = len / block.max(1);
    acc.max("blocks", nblocks as u64);
    let nfb = b.cfg.nfb.unwrap_or(16) as usize;
    if nblocks > nfb {
        acc.count("automata_with_evicted_blocks", 1);
    }

    // ---- pass 1: product BFS over child edges -------------------------------------------------
    let mut node_of: Vec<usize> = vec![NONE; len];
    let mut state_of: Vec<u32> = vec![u32::MAX; refac.nodes.len()];
    if len == 0 {
        acc.violate(
            "C07",
            "table",
            "the state table is empty: the root state does not exist".into(),
            origin.clone(),
        );
        return None;
    }
    node_of[0] = 0;
    state_of[0] = 0;
    let mut queue: Vec<(u32, usize)> = vec![(0, 0)];
    let mut qi = 0;
    let mut ok = true;
    let mut budget = Budget::default();
    while qi < queue.len() {
        let (s, r) = queue[qi];
        qi += 1;
        acc.states += 1;
        if qi % 64 == 0 {
            util::tick_progress();
        }
        for &c in &mapped {
            acc.transitions += 1;
            let code = it.code(c).unwrap();
            let ch = match it.child(s, code) {
                Ok(x) => x,
                Err(f) => {
                    let mut path = refac.string(r);
                    path.push(c);
                    fault_violation(prop, &f, origin, b, &labels_to_bytes(is_char, &path), acc);
                    return None;
                }
            };
            // conformance: the crate's own child function on the same pair
            let real = b.auto.child(s, c);
            acc.traces += 1;
            if real != ch {
                // model and code disagree: an alarm only if a search through the public API shows
                // a wrong result on the access haystack
                let mut path = refac.string(r);
                path.push(c);
                structural(prop, b, pats, origin, &refac, &mut budget, &labels_to_bytes(is_char, &path),
                    format!("the crate's child function returns {real:?} at state {s} label {c:#x}, the stored table says {ch:?}"), acc);
                acc.count("unconfirmed_model_out_of_date", u64::from(budget.confirmed == 0));
                return None;
            }
            let rch = refac.nodes[r].edges.get(&c).copied();
            match (ch, rch) {
                (None, None) => {}
                (Some(t), Some(rt)) => {
                    if node_of[t as usize] != NONE || state_of[rt] != u32::MAX {
                        // a slot reached twice: the child relation is not a tree
                        ok = false;
                        if (want.structure || want.ranking) && budget.allow() {
                            let mut path = refac.string(r);
                            path.push(c);
                            structural(prop, b, pats, origin, &refac, &mut budget, &labels_to_bytes(is_char, &path),
                                format!("state {t} is the child of two different (state, label) pairs"), acc);
                        }
                        continue;
                    }
                    node_of[t as usize] = rt;
                    state_of[rt] = t;
                    queue.push((t, rt));
                }
                (Some(t), None) => {
                    ok = false;
                    if want.structure && budget.allow() {
                        let mut path = refac.string(r);
                        path.push(c);
                        structural(prop, b, pats, origin, &refac, &mut budget, &labels_to_bytes(is_char, &path),
                            format!("phantom transition: state {s} (after {:?}) accepts label {c:#x} -> {t} but no pattern continues that way", e2::show(&labels_to_bytes(is_char, &refac.string(r)))), acc);
                    }
                }
                (None, Some(_)) => {
                    ok = false;
                    if want.structure && budget.allow() {
                        let mut path = refac.string(r);
                        path.push(c);
                        structural(prop, b, pats, origin, &refac, &mut budget, &labels_to_bytes(is_char, &path),
                            format!("missing transition: state {s} has no child on label {c:#x} although a pattern continues that way"), acc);
                    }
                }
            }
        }
        // unmapped characters must never touch the table and always lead to the root
        for &c in &unmapped {
            acc.transitions += 1;
            let real = b.auto.next(s, c, leftmost);
            acc.traces += 1;
            if real != ROOT && want.structure {
                let mut path = refac.string(r);
                path.push(c);
                structural(prop, b, pats, origin, &refac, &mut budget, &labels_to_bytes(is_char, &path),
                    format!("unmapped character {c:#x} moves state {s} to {real} instead of the root"), acc);
                ok = false;
            }
        }
        if util::stopped() {
            return None;
        }
    }
    let reached = queue.len();
    if want.counts {
        let expect = refac.nodes.len();
        if reached != expect || b.auto.num_states() != expect {
            acc.violate(
                "C15",
                "table",
                format!(
                    "num_states() = {}, states reachable from the root = {}, 1 + distinct non-empty prefixes of the reportable patterns = {}",
                    b.auto.num_states(), reached, expect
                ),
                origin.clone(),
            );
        }
        let hb = b.auto.heap_bytes();
        if hb < 12 * expect.min(b.auto.num_states()) {
            acc.violate(
                "C15",
                "table",
                format!("heap_bytes() = {hb} is smaller than 12 bytes x {} states", expect),
                origin.clone(),
            );
        }
        if let Auto::C(a) = &b.auto {
            if a.num_elements() < expect {
                acc.violate(
                    "C15",
                    "table",
                    format!("num_elements() = {} is smaller than the {} states", a.num_elements(), expect),
                    origin.clone(),
                );
            }
        }
    }
    acc.sample(|| {
        let mut o = origin.clone();
        if let Some(m) = o.as_object_mut() {
            if m.get("patterns").map_or(false, |p| p.as_array().map_or(0, |a| a.len()) > 8) {
                m.remove("patterns");
            }
            m.insert("reachable_states".into(), json!(reached));
            m.insert("labels_per_state".into(), json!(mapped.len() + unmapped.len()));
            m.insert("table_len".into(), json!(len));
            m.insert("blocks".into(), json!(nblocks));
        }
        o
    });
    if !ok {
        return None;
    }

    // ---- pass 2: goto/fail function, fail links, outputs, ranking on every reachable state ------
    let plen: Vec<usize> = rpats.iter().map(Vec::len).collect();
    for &(s, r) in &queue {
        // fail link
        let f = raw.states[s as usize].fail;
        if s != ROOT {
            if leftmost {
                if f != DEAD {
                    if f as usize >= len {
                        fault_violation(prop, &Fault::Oob { what: "fail index", state: s, index: u64::from(f) }, origin, b,
                            &labels_to_bytes(is_char, &refac.string(r)), acc);
                        return None;
                    }
                    let fr = node_of[f as usize];
                    if want.ranking && (fr == NONE || refac.nodes[fr].depth >= refac.nodes[r].depth) {
                        acc.violate("C13", "table",
                            format!("fail link of state {s} (depth {}) does not lead to a strictly shallower reachable state", refac.nodes[r].depth),
                            e2::with(origin.clone(), "haystack", json!(hex(&labels_to_bytes(is_char, &refac.string(r))))));
                    }
                }
            } else {
                if f as usize >= len {
                    fault_violation(prop, &Fault::Oob { what: "fail index", state: s, index: u64::from(f) }, origin, b,
                        &labels_to_bytes(is_char, &refac.string(r)), acc);
                    return None;
                }
                let fr = node_of[f as usize];
                if want.ranking && (fr == NONE || refac.nodes[fr].depth >= refac.nodes[r].depth) {
                    acc.violate("C13", "table",
                        format!("fail link of state {s} (depth {}) does not lead to a strictly shallower reachable state", refac.nodes[r].depth),
                        e2::with(origin.clone(), "haystack", json!(hex(&labels_to_bytes(is_char, &refac.string(r))))));
                }
            }
        }
        // output chain
        let chain = match it.chain(s, want.ranking) {
            Ok(c) => c,
            Err(fl) => {
                fault_violation(prop, &fl, origin, b, &labels_to_bytes(is_char, &refac.string(r)), acc);
                return None;
            }
        };
        if want.structure {
            if !leftmost {
                let exp: Vec<(u32, u32)> = refac
                    .outputs(r)
                    .iter()
                    .map(|&i| (b.vals[rep[i]], plen[i] as u32))
                    .collect();
                if chain != exp && budget.allow() {
                    structural(prop, b, pats, origin, &refac, &mut budget, &labels_to_bytes(is_char, &refac.string(r)),
                        format!("output chain of state {s} is {chain:?} (value,len), the patterns ending here are {exp:?}"), acc);
                }
            } else if let Some(i) = refac.nodes[r].term {
                let exp = (b.vals[rep[i]], plen[i] as u32);
                if chain.first() != Some(&exp) && budget.allow() {
                    structural(prop, b, pats, origin, &refac, &mut budget, &labels_to_bytes(is_char, &refac.string(r)),
                        format!("state {s} ends pattern #{} but the head of its output chain is {:?}, not {exp:?}", rep[i], chain.first()), acc);
                }
            }
        }
        // transition function on every label
        for &c in &mapped {
            let code = it.code(c);
            let (n, hops) = match it.next(s, code, leftmost) {
                Ok(x) => x,
                Err(fl) => {
                    let mut path = refac.string(r);
                    path.push(c);
                    fault_violation(prop, &fl, origin, b, &labels_to_bytes(is_char, &path), acc);
                    return None;
                }
            };
            acc.transitions += 1;
            let h0 = daachorse::verif::fail_hops();
            let real = b.auto.next(s, c, leftmost);
            let real_hops = daachorse::verif::fail_hops() - h0;
            acc.traces += 1;
            if real != n {
                {
                    let mut path = refac.string(r);
                    path.push(c);
                    structural(prop, b, pats, origin, &refac, &mut budget, &labels_to_bytes(is_char, &path),
                        format!("the crate's transition function goes to {real} at state {s} label {c:#x}, the stored table says {n}"), acc);
                    acc.count("unconfirmed_model_out_of_date", u64::from(budget.confirmed == 0));
                }
                return None;
            }
            if want.ranking && real_hops != u64::from(hops) {
                acc.count("hop_count_differs_from_table_model", 1);
            }
            if !leftmost {
                let rn = refac.delta(r, c);
                if want.structure && node_of[n as usize] != rn && budget.allow() {
                    let mut path = refac.string(r);
                    path.push(c);
                    structural(prop, b, pats, origin, &refac, &mut budget, &labels_to_bytes(is_char, &path),
                        format!("transition of state {s} on label {c:#x} leads to the state of {:?}, the textbook automaton goes to {:?}",
                            e2::show(&labels_to_bytes(is_char, &refac.string(node_of[n as usize]))),
                            e2::show(&labels_to_bytes(is_char, &refac.string(rn)))), acc);
                }
                if want.ranking {
                    // local amortisation: hops <= depth(s) + 1 - depth(next)  =>  sum over any haystack <= n
                    let dn = if node_of[n as usize] != NONE { refac.nodes[node_of[n as usize]].depth } else { 0 };
                    let bound = refac.nodes[r].depth + 1 - dn.min(refac.nodes[r].depth + 1);
                    if hops as usize > bound {
                        acc.count("local_amortisation_failures", 1);
                    }
                }
            }
        }
        util::tick_progress();
    }
    if want.ranking && !leftmost {
        if acc.counters.get("local_amortisation_failures").copied().unwrap_or(0) > 0 {
            exact_hop_bound(prop, b, &it, &queue, &mapped, &refac, origin, is_char, acc);
        }
    }
    Some(Explored {
        refac,
        state_of,
        rep,
    })
}

/// Exact form of the 2n bound on one automaton: no path from the root may accumulate more fail
/// hops than labels. phi(s) = max over paths root->s of sum(hops - 1) must stay <= 0.
#[allow(clippy::too_many_arguments)]
fn exact_hop_bound(
    _prop: &str,
    _b: &Built,
    it: &Interp,
    queue: &[(u32, usize)],
    mapped: &[u32],
    refac: &RefAc,
    origin: &Value,
    is_char: bool,
    acc: &mut Acc,
) {
    let len = it.len();
    let mut phi: Vec<i64> = vec![i64::MIN; len];
    let mut via: Vec<(u32, u32)> = vec![(u32::MAX, 0); len];
    phi[0] = 0;
    for round in 0..=queue.len() {
        let mut changed = false;
        for &(s, _) in queue {
            if phi[s as usize] == i64::MIN {
                continue;
            }
            for &c in mapped {
                if let Ok((n, h)) = it.next(s, it.code(c), false) {
                    let v = phi[s as usize] + i64::from(h) - 1;
                    if v > phi[n as usize] {
                        phi[n as usize] = v;
                        via[n as usize] = (s, c);
                        changed = true;
                        if v > 0 || round == queue.len() {
                            // reconstruct a witness haystack
                            let mut labels = Vec::new();
                            let mut cur = n;
                            let mut guard = 0;
                            while cur != 0 && guard < 4 * len {
                                let (p, l) = via[cur as usize];
                                if p == u32::MAX {
                                    break;
                                }
                                labels.push(l);
                                cur = p;
                                guard += 1;
                            }
                            labels.reverse();
                            let mut hay = Vec::new();
                            for l in &labels {
                                oracle::encode_label(is_char, *l, &mut hay);
                            }
                            acc.violate("C13", "table",
                                format!("a haystack of {} labels makes the standard scan follow more than {} fail links (more than 2n transitions)", labels.len(), labels.len()),
                                e2::with(e2::with(origin.clone(), "haystack", json!(hex(&hay))), "check", json!("hops")));
                            return;
                        }
                    }
                }
            }
        }
        if !changed {
            break;
        }
    }
    let _ = refac;
}

/// A structural difference to the reference is only an alarm when a search through the public
/// API shows it; otherwise it is counted as an unconfirmed difference.
#[allow(clippy::too_many_arguments)]
fn structural(
    prop: &str,
    b: &Built,
    pats: &[Vec<u8>],
    origin: &Value,
    refac: &RefAc,
    budget: &mut Budget,
    path: &[u8],
    what: String,
    acc: &mut Acc,
) {
    budget.tried += 1;
    // a wrong search result found while checking a non-search property (closure, ranking,
    // statistics) is reported under the search property it violates
    let prop: &str = match prop {
        "C07" | "C13" | "C15" | "C10" => match b.cfg.kind {
            Kind::Std => "C01",
            Kind::LL => "C03",
            Kind::LF => "C04",
        },
        p => p,
    };
    let is_char = b.cfg.variant == Variant::Char;
    // tails: nothing, every label of the patterns (and 00/01/ff), pairs of them, and the way down
    // to the nearest pattern end below every depth-1..2 node
    let mut lab: Vec<Vec<u8>> = Vec::new();
    let mut seen = std::collections::BTreeSet::new();
    for n in &refac.nodes {
        for &c in n.edges.keys() {
            if seen.insert(c) && seen.len() <= 12 {
                lab.push(labels_to_bytes(is_char, &[c]));
            }
        }
    }
    if !is_char {
        for x in [0u8, 1, 0xff] {
            lab.push(vec![x]);
        }
    } else {
        lab.push("z".as_bytes().to_vec());
    }
    let mut tails: Vec<Vec<u8>> = vec![vec![]];
    for a in &lab {
        tails.push(a.clone());
    }
    for a in &lab {
        for c in &lab {
            let mut t = a.clone();
            t.extend_from_slice(c);
            tails.push(t);
        }
    }
    // continuation to the nearest pattern end below the state the *reference* is in after `path`
    // (and below each of its fail ancestors): the text a correct automaton still has to recognise
    {
        let lab = oracle::labels_of(is_char, path);
        let mut node = 0usize;
        for &(c, _) in &lab {
            node = refac.delta(node, c);
        }
        let mut cur = node;
        let mut guard = 0;
        loop {
            // BFS down the trie from cur to the nearest terminal
            let mut q: Vec<(usize, Vec<u32>)> = vec![(cur, vec![])];
            let mut qi = 0;
            while qi < q.len() && qi < 4000 {
                let (n, t) = q[qi].clone();
                qi += 1;
                if refac.nodes[n].term.is_some() && !t.is_empty() {
                    tails.push(labels_to_bytes(is_char, &t));
                    break;
                }
                for (&c, &ch) in &refac.nodes[n].edges {
                    let mut t2 = t.clone();
                    t2.push(c);
                    q.push((ch, t2));
                }
            }
            if cur == 0 || guard > 8 {
                break;
            }
            cur = refac.nodes[cur].fail;
            guard += 1;
        }
    }
    // continuation to pattern ends: every pattern suffix of length <= 4 labels
    for p in pats.iter().take(64) {
        let labels = oracle::labels_of(is_char, p);
        for k in 1..=labels.len().min(4) {
            let t: Vec<u32> = labels[labels.len() - k..].iter().map(|x| x.0).collect();
            tails.push(labels_to_bytes(is_char, &t));
        }
    }
    // the property's own search methods decide; other properties use every method of the kind
    let own: Vec<crate::auto::Method> = match prop {
        "C01" => vec![crate::auto::Method::Ovl, crate::auto::Method::OvlIt],
        "C02" => vec![crate::auto::Method::Find, crate::auto::Method::FindIt],
        "C05" => vec![crate::auto::Method::NoSuf, crate::auto::Method::NoSufIt],
        _ => vec![],
    };
    let methods: &[crate::auto::Method] = if own.is_empty() || b.cfg.kind != Kind::Std {
        crate::auto::Method::for_kind(b.cfg.kind)
    } else {
        &own
    };
    for t in &tails {
        let mut hay = path.to_vec();
        hay.extend_from_slice(t);
        let occ = oracle::occurrences(pats, &hay);
        for &m in methods {
            if let Err((e, g, note)) = e2::judge(b, pats, &occ, &hay, m) {
                let mut bb_origin = origin.clone();
                bb_origin
                    .as_object_mut()
                    .unwrap()
                    .insert("table_finding".into(), json!(what));
                let _ = bb_origin;
                e2::report_mismatch(prop, "enum", b, pats, &hay, m, &e, &g,
                    &format!("{note} [table exploration: {what}]"), acc);
                budget.confirmed += 1;
                return;
            }
        }
    }
    acc.count("unconfirmed_table_differences", 1);
    if acc.notes.len() < 5 {
        acc.notes.push(format!(
            "table differs from the reference but no search through the public API showed it: {what}"
        ));
    }
}

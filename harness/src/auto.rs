//! Uniform wrapper around the two automaton variants (value type u32).

use crate::util::in_lib;
use daachorse::errors::DaachorseError;
use daachorse::verif::RawAutomaton;
use daachorse::{
    CharwiseDoubleArrayAhoCorasick as CA, CharwiseDoubleArrayAhoCorasickBuilder as CBld,
    DoubleArrayAhoCorasick as BA, DoubleArrayAhoCorasickBuilder as BBld, MatchKind,
};
use serde_json::{json, Value};

pub type M = (usize, usize, u64);

#[derive(Clone, Copy, Debug, PartialEq, Eq, Hash, PartialOrd, Ord)]
pub enum Kind {
    Std,
    LL,
    LF,
}
impl Kind {
    pub const ALL: [Kind; 3] = [Kind::Std, Kind::LL, Kind::LF];
    pub fn mk(self) -> MatchKind {
        match self {
            Kind::Std => MatchKind::Standard,
            Kind::LL => MatchKind::LeftmostLongest,
            Kind::LF => MatchKind::LeftmostFirst,
        }
    }
    pub fn name(self) -> &'static str {
        match self {
            Kind::Std => "standard",
            Kind::LL => "leftmost_longest",
            Kind::LF => "leftmost_first",
        }
    }
    pub fn parse(s: &str) -> Kind {
        match s {
            "standard" => Kind::Std,
            "leftmost_longest" => Kind::LL,
            "leftmost_first" => Kind::LF,
            _ => panic!("bad kind {s}"),
        }
    }
    pub fn byte(self) -> u8 {
        match self {
            Kind::Std => 0,
            Kind::LL => 1,
            Kind::LF => 2,
        }
    }
}

#[derive(Clone, Copy, Debug, PartialEq, Eq, Hash)]
pub enum Variant {
    Byte,
    Char,
}
impl Variant {
    pub const ALL: [Variant; 2] = [Variant::Byte, Variant::Char];
    pub fn name(self) -> &'static str {
        match self {
            Variant::Byte => "bytewise",
            Variant::Char => "charwise",
        }
    }
    pub fn parse(s: &str) -> Variant {
        match s {
            "bytewise" => Variant::Byte,
            "charwise" => Variant::Char,
            _ => panic!("bad variant {s}"),
        }
    }
}

/// Construction entry point.
#[derive(Clone, Copy, Debug, PartialEq, Eq, Hash)]
pub enum Entry {
    /// `X::new` / `X::with_values` (standard kind, default settings only).
    Assoc,
    /// `XBuilder::new()...build` / `build_with_values`.
    Builder,
}
impl Entry {
    pub fn name(self) -> &'static str {
        match self {
            Entry::Assoc => "assoc",
            Entry::Builder => "builder",
        }
    }
    pub fn parse(s: &str) -> Entry {
        match s {
            "assoc" => Entry::Assoc,
            "builder" => Entry::Builder,
            _ => panic!("bad entry {s}"),
        }
    }
}

#[derive(Clone, Copy, Debug, PartialEq, Eq, Hash)]
pub struct Cfg {
    pub variant: Variant,
    pub kind: Kind,
    /// None = the builder's default (the setter is not called).
    pub nfb: Option<u32>,
    pub entry: Entry,
}

impl Cfg {
    pub fn new(variant: Variant, kind: Kind, nfb: Option<u32>, entry: Entry) -> Self {
        Self {
            variant,
            kind,
            nfb,
            entry,
        }
    }
    pub fn json(&self) -> Value {
        json!({"variant": self.variant.name(), "kind": self.kind.name(), "nfb": self.nfb, "entry": self.entry.name()})
    }
    pub fn from_json(v: &Value) -> Cfg {
        Cfg {
            variant: Variant::parse(v["variant"].as_str().unwrap_or("bytewise")),
            kind: Kind::parse(v["kind"].as_str().unwrap_or("standard")),
            nfb: v["nfb"].as_u64().map(|x| x as u32),
            entry: Entry::parse(v["entry"].as_str().unwrap_or("builder")),
        }
    }
}

#[derive(Clone, Copy, Debug, PartialEq, Eq, Hash, PartialOrd, Ord)]
pub enum ErrKind {
    InvalidArgument,
    DuplicatePattern,
    AutomatonScale,
    InvalidConversion,
}
impl ErrKind {
    pub fn of(e: &DaachorseError) -> ErrKind {
        match e {
            DaachorseError::InvalidArgument(_) => ErrKind::InvalidArgument,
            DaachorseError::DuplicatePattern(_) => ErrKind::DuplicatePattern,
            DaachorseError::AutomatonScale(_) => ErrKind::AutomatonScale,
            DaachorseError::InvalidConversion(_) => ErrKind::InvalidConversion,
        }
    }
    pub fn name(self) -> &'static str {
        match self {
            ErrKind::InvalidArgument => "InvalidArgument",
            ErrKind::DuplicatePattern => "DuplicatePattern",
            ErrKind::AutomatonScale => "AutomatonScale",
            ErrKind::InvalidConversion => "InvalidConversion",
        }
    }
}

#[derive(Clone, Copy, Debug, PartialEq, Eq, Hash, PartialOrd, Ord)]
pub enum Method {
    Find,
    FindIt,
    Ovl,
    OvlIt,
    NoSuf,
    NoSufIt,
    Lm,
}
impl Method {
    pub const STD: [Method; 6] = [
        Method::Find,
        Method::FindIt,
        Method::Ovl,
        Method::OvlIt,
        Method::NoSuf,
        Method::NoSufIt,
    ];
    pub fn name(self) -> &'static str {
        match self {
            Method::Find => "find_iter",
            Method::FindIt => "find_iter_from_iter",
            Method::Ovl => "find_overlapping_iter",
            Method::OvlIt => "find_overlapping_iter_from_iter",
            Method::NoSuf => "find_overlapping_no_suffix_iter",
            Method::NoSufIt => "find_overlapping_no_suffix_iter_from_iter",
            Method::Lm => "leftmost_find_iter",
        }
    }
    pub fn parse(s: &str) -> Method {
        for m in Method::STD.iter().chain([Method::Lm].iter()) {
            if m.name() == s {
                return *m;
            }
        }
        panic!("bad method {s}")
    }
    pub fn for_kind(k: Kind) -> &'static [Method] {
        match k {
            Kind::Std => &Method::STD,
            _ => &[Method::Lm],
        }
    }
}

pub enum Auto {
    B(BA<u32>),
    C(CA<u32>),
}

fn as_str(b: &[u8]) -> &str {
    std::str::from_utf8(b).expect("harness feeds only valid UTF-8 to the char-wise automaton")
}

/// Marks a result list that was cut off because the iterator kept yielding (C13: every search
/// returns after finitely many steps; no search can yield more matches than 256 per position here).
pub const RUNAWAY: M = (usize::MAX, usize::MAX, u64::MAX);

macro_rules! collect {
    ($it:expr, $n:expr) => {{
        let mut v: Vec<M> = Vec::new();
        let cap = 512 * ($n + 4);
        for m in $it {
            if v.len() >= cap {
                v.push(RUNAWAY);
                break;
            }
            // start() = end - length can underflow for a corrupt record: keep the raw fields apart
            v.push((m.start(), m.end(), u64::from(m.value())));
        }
        v
    }};
}

impl Auto {
    /// Builds an automaton. `vals == None` uses the bare-pattern entry points.
    pub fn build(cfg: Cfg, pats: &[Vec<u8>], vals: Option<&[u32]>) -> Result<Auto, DaachorseError> {
        in_lib(|| match cfg.variant {
            Variant::Byte => {
                let r = if cfg.entry == Entry::Assoc {
                    assert!(cfg.kind == Kind::Std && cfg.nfb.is_none());
                    match vals {
                        None => BA::<u32>::new(pats),
                        Some(v) => BA::<u32>::with_values(pats.iter().zip(v.iter().copied())),
                    }
                } else {
                    let mut b = BBld::new().match_kind(cfg.kind.mk());
                    if let Some(n) = cfg.nfb {
                        b = b.num_free_blocks(n);
                    }
                    match vals {
                        None => b.build(pats),
                        Some(v) => b.build_with_values(pats.iter().zip(v.iter().copied())),
                    }
                };
                r.map(Auto::B)
            }
            Variant::Char => {
                let sp: Vec<&str> = pats.iter().map(|p| as_str(p)).collect();
                let r = if cfg.entry == Entry::Assoc {
                    assert!(cfg.kind == Kind::Std && cfg.nfb.is_none());
                    match vals {
                        None => CA::<u32>::new(&sp),
                        Some(v) => CA::<u32>::with_values(sp.iter().zip(v.iter().copied())),
                    }
                } else {
                    let mut b = CBld::new().match_kind(cfg.kind.mk());
                    if let Some(n) = cfg.nfb {
                        b = b.num_free_blocks(n);
                    }
                    match vals {
                        None => b.build(&sp),
                        Some(v) => b.build_with_values(sp.iter().zip(v.iter().copied())),
                    }
                };
                r.map(Auto::C)
            }
        })
    }

    pub fn variant(&self) -> Variant {
        match self {
            Auto::B(_) => Variant::Byte,
            Auto::C(_) => Variant::Char,
        }
    }

    /// Runs one search method over the whole haystack and collects the matches.
    #[inline]
    pub fn run(&self, m: Method, hay: &[u8]) -> Vec<M> {
        in_lib(|| match self {
            Auto::B(a) => match m {
                Method::Find => collect!(a.find_iter(hay), hay.len()),
                Method::FindIt => collect!(a.find_iter_from_iter(hay.iter().copied()), hay.len()),
                Method::Ovl => collect!(a.find_overlapping_iter(hay), hay.len()),
                Method::OvlIt => collect!(a.find_overlapping_iter_from_iter(hay.iter().copied()), hay.len()),
                Method::NoSuf => collect!(a.find_overlapping_no_suffix_iter(hay), hay.len()),
                Method::NoSufIt => {
                    collect!(a.find_overlapping_no_suffix_iter_from_iter(hay.iter().copied()), hay.len())
                }
                Method::Lm => collect!(a.leftmost_find_iter(hay), hay.len()),
            },
            Auto::C(a) => {
                let s = as_str(hay);
                match m {
                    Method::Find => collect!(a.find_iter(s), hay.len()),
                    Method::FindIt => {
                        collect!(unsafe { a.find_iter_from_iter(s.bytes()) }, hay.len())
                    }
                    Method::Ovl => collect!(a.find_overlapping_iter(s), hay.len()),
                    Method::OvlIt => {
                        collect!(unsafe { a.find_overlapping_iter_from_iter(s.bytes()) }, hay.len())
                    }
                    Method::NoSuf => collect!(a.find_overlapping_no_suffix_iter(s), hay.len()),
                    Method::NoSufIt => {
                        collect!(unsafe { a.find_overlapping_no_suffix_iter_from_iter(s.bytes()) }, hay.len())
                    }
                    Method::Lm => collect!(a.leftmost_find_iter(s), hay.len()),
                }
            }
        })
    }

    /// Runs one byte-iterator search over a counting source. For every `next()` call it records
    /// the result and the number of bytes pulled from the source when the call returned. (An
    /// `Iterator` source can only be advanced, so "left to right, each byte once" reduces to the
    /// pull counts.)
    pub fn run_counting(&self, m: Method, hay: &[u8]) -> Vec<(Option<M>, usize)> {
        use std::cell::Cell;
        let pulled = Cell::new(0usize);
        let mut idx = 0usize;
        let src = std::iter::from_fn(|| {
            if idx < hay.len() {
                let b = hay[idx];
                idx += 1;
                pulled.set(pulled.get() + 1);
                Some(b)
            } else {
                None
            }
        });
        let mut out = Vec::new();
        macro_rules! drive {
            ($it:expr) => {{
                let mut it = $it;
                loop {
                    let r = it.next();
                    let r = r.map(|m| (m.start(), m.end(), u64::from(m.value())));
                    let done = r.is_none();
                    out.push((r, pulled.get()));
                    if done {
                        break;
                    }
                }
            }};
        }
        in_lib(|| match self {
            Auto::B(a) => match m {
                Method::FindIt => drive!(a.find_iter_from_iter(src)),
                Method::OvlIt => drive!(a.find_overlapping_iter_from_iter(src)),
                Method::NoSufIt => drive!(a.find_overlapping_no_suffix_iter_from_iter(src)),
                _ => panic!("not a byte-iterator method"),
            },
            Auto::C(a) => {
                let _ = as_str(hay);
                match m {
                    Method::FindIt => drive!(unsafe { a.find_iter_from_iter(src) }),
                    Method::OvlIt => drive!(unsafe { a.find_overlapping_iter_from_iter(src) }),
                    Method::NoSufIt => {
                        drive!(unsafe { a.find_overlapping_no_suffix_iter_from_iter(src) })
                    }
                    _ => panic!("not a byte-iterator method"),
                }
            }
        });
        out
    }

    /// Byte-iterator search over a source that answers `None` once after `cut` bytes and would
    /// deliver the rest afterwards (a segmented / non-fused source). Drives `next()` until it returns
    /// `None` for the first time; returns the matches up to there and the number of bytes pulled.
    pub fn run_cut(&self, m: Method, hay: &[u8], cut: usize) -> (Vec<M>, usize) {
        use std::cell::Cell;
        let pulled = Cell::new(0usize);
        let paused = Cell::new(false);
        let mut idx = 0usize;
        let src = std::iter::from_fn(|| {
            if idx == cut && !paused.get() {
                paused.set(true);
                return None;
            }
            if idx < hay.len() {
                let b = hay[idx];
                idx += 1;
                pulled.set(pulled.get() + 1);
                Some(b)
            } else {
                None
            }
        });
        let mut out = Vec::new();
        macro_rules! drive {
            ($it:expr) => {{
                let mut it = $it;
                while let Some(m) = it.next() {
                    out.push((m.start(), m.end(), u64::from(m.value())));
                    if out.len() > 512 * (hay.len() + 4) {
                        break;
                    }
                }
            }};
        }
        in_lib(|| match self {
            Auto::B(a) => match m {
                Method::FindIt => drive!(a.find_iter_from_iter(src)),
                Method::OvlIt => drive!(a.find_overlapping_iter_from_iter(src)),
                Method::NoSufIt => drive!(a.find_overlapping_no_suffix_iter_from_iter(src)),
                _ => panic!("not a byte-iterator method"),
            },
            Auto::C(a) => match m {
                Method::FindIt => drive!(unsafe { a.find_iter_from_iter(src) }),
                Method::OvlIt => drive!(unsafe { a.find_overlapping_iter_from_iter(src) }),
                Method::NoSufIt => drive!(unsafe { a.find_overlapping_no_suffix_iter_from_iter(src) }),
                _ => panic!("not a byte-iterator method"),
            },
        });
        (out, pulled.get())
    }

    /// A step-wise iterator (for interleaving several searches on one automaton).
    pub fn iter<'a>(&'a self, m: Method, hay: &'a [u8]) -> Box<dyn Iterator<Item = M> + 'a> {
        fn cv<V: Copy + Into<u64>>(m: daachorse::Match<V>) -> M {
            (m.start(), m.end(), m.value().into())
        }
        match self {
            Auto::B(a) => match m {
                Method::Find => Box::new(a.find_iter(hay).map(cv)),
                Method::FindIt => Box::new(a.find_iter_from_iter(hay.iter().copied()).map(cv)),
                Method::Ovl => Box::new(a.find_overlapping_iter(hay).map(cv)),
                Method::OvlIt => {
                    Box::new(a.find_overlapping_iter_from_iter(hay.iter().copied()).map(cv))
                }
                Method::NoSuf => Box::new(a.find_overlapping_no_suffix_iter(hay).map(cv)),
                Method::NoSufIt => Box::new(
                    a.find_overlapping_no_suffix_iter_from_iter(hay.iter().copied())
                        .map(cv),
                ),
                Method::Lm => Box::new(a.leftmost_find_iter(hay).map(cv)),
            },
            Auto::C(a) => {
                let s = as_str(hay);
                match m {
                    Method::Find => Box::new(a.find_iter(s).map(cv)),
                    Method::FindIt => Box::new(unsafe { a.find_iter_from_iter(s.bytes()) }.map(cv)),
                    Method::Ovl => Box::new(a.find_overlapping_iter(s).map(cv)),
                    Method::OvlIt => {
                        Box::new(unsafe { a.find_overlapping_iter_from_iter(s.bytes()) }.map(cv))
                    }
                    Method::NoSuf => Box::new(a.find_overlapping_no_suffix_iter(s).map(cv)),
                    Method::NoSufIt => Box::new(
                        unsafe { a.find_overlapping_no_suffix_iter_from_iter(s.bytes()) }.map(cv),
                    ),
                    Method::Lm => Box::new(a.leftmost_find_iter(s).map(cv)),
                }
            }
        }
    }

    /// The bytes of the automaton object itself (its inline fields: vector headers, kind, counts
    /// and any cell / atomic a change may add). Used to show that searching does not write to it.
    pub fn object_bytes(&self) -> Vec<u8> {
        fn bytes_of<T>(x: &T) -> Vec<u8> {
            let n = std::mem::size_of_val(x);
            let p = (x as *const T).cast::<std::mem::MaybeUninit<u8>>();
            // Padding bytes are read as they are; they do not change between two reads.
            (0..n)
                .map(|i| unsafe { std::ptr::read_volatile(p.add(i)).assume_init() })
                .collect()
        }
        match self {
            Auto::B(a) => bytes_of(a),
            Auto::C(a) => bytes_of(a),
        }
    }

    pub fn raw(&self) -> RawAutomaton<u32> {
        match self {
            Auto::B(a) => a.verif_raw(),
            Auto::C(a) => a.verif_raw(),
        }
    }

    pub fn num_states(&self) -> usize {
        match self {
            Auto::B(a) => a.num_states(),
            Auto::C(a) => a.num_states(),
        }
    }

    pub fn heap_bytes(&self) -> usize {
        match self {
            Auto::B(a) => a.heap_bytes(),
            Auto::C(a) => a.heap_bytes(),
        }
    }

    pub fn serialize(&self) -> Vec<u8> {
        in_lib(|| match self {
            Auto::B(a) => a.serialize(),
            Auto::C(a) => a.serialize(),
        })
    }

    /// Deserializes; returns the automaton and the (offset, len) of the remainder inside `src`.
    pub fn deserialize(variant: Variant, src: &[u8]) -> (Auto, usize, usize) {
        in_lib(|| match variant {
            Variant::Byte => {
                let (a, rest) = unsafe { BA::<u32>::deserialize_unchecked(src) };
                let off = rest.as_ptr() as usize - src.as_ptr() as usize;
                (Auto::B(a), off, rest.len())
            }
            Variant::Char => {
                let (a, rest) = unsafe { CA::<u32>::deserialize_unchecked(src) };
                let off = rest.as_ptr() as usize - src.as_ptr() as usize;
                (Auto::C(a), off, rest.len())
            }
        })
    }

    pub fn same(&self, o: &Auto) -> bool {
        match (self, o) {
            (Auto::B(a), Auto::B(b)) => a == b,
            (Auto::C(a), Auto::C(b)) => a == b,
            _ => false,
        }
    }

    /// The crate's own standard / leftmost transition on a label (byte value or code point).
    /// The caller guarantees `s < len` (checked by the hook as well).
    #[inline]
    pub fn next(&self, s: u32, label: u32, leftmost: bool) -> u32 {
        in_lib(|| match self {
            Auto::B(a) => {
                if leftmost {
                    a.verif_next_state_leftmost(s, label as u8)
                } else {
                    a.verif_next_state(s, label as u8)
                }
            }
            Auto::C(a) => {
                let c = char::from_u32(label).expect("label is a scalar value");
                if leftmost {
                    a.verif_next_state_leftmost(s, c)
                } else {
                    a.verif_next_state(s, c)
                }
            }
        })
    }

    /// The crate's own child function. For the char-wise variant `label` is a code point that the
    /// mapper maps (unmapped characters have no children by definition).
    #[inline]
    pub fn child(&self, s: u32, label: u32) -> Option<u32> {
        in_lib(|| match self {
            Auto::B(a) => a.verif_child(s, label as u8),
            Auto::C(a) => {
                let c = char::from_u32(label).expect("label is a scalar value");
                a.verif_mapped(c).and_then(|code| a.verif_child(s, code))
            }
        })
    }
}

pub fn err_name(e: &DaachorseError) -> &'static str {
    ErrKind::of(e).name()
}

//! Population driver: structured families x kinds x num_free_blocks, explored in parallel.

use crate::auto::{Cfg, Entry, Kind, Variant};
use crate::e2::{self, Built};
use crate::families::{self, Family};
use crate::util::{self, par_for, set_case, Acc};
use serde_json::{json, Value};

pub struct PopItem<'a> {
    pub fam: &'a Family,
    pub built: Built,
    pub origin: Value,
}

pub fn origin_json(fam: &Family, level: u32, cfg: &Cfg) -> Value {
    let mut o = cfg.json();
    let m = o.as_object_mut().unwrap();
    m.insert("family".into(), json!(fam.name));
    m.insert("level".into(), json!(level));
    m.insert("seed".into(), json!(util::seed()));
    m.insert("num_patterns".into(), json!(fam.pats.len()));
    o
}

pub fn families_for(level: u32) -> Vec<(Variant, Family)> {
    let seed = util::seed();
    let mut v: Vec<(Variant, Family)> = Vec::new();
    for f in families::byte_families(level, seed) {
        v.push((Variant::Byte, f));
    }
    for f in families::char_families(level, seed) {
        v.push((Variant::Char, f));
    }
    v
}

/// Runs `f` on every (family, kind, nfb) automaton of the population.
pub fn for_population<F>(
    prop: &str,
    level: u32,
    kinds: &[Kind],
    nfbs: &[Option<u32>],
    f: F,
) -> Acc
where
    F: Fn(&PopItem, &mut Acc) + Sync,
{
    let fams = families_for(level);
    let mut tasks: Vec<(usize, Kind, Option<u32>)> = Vec::new();
    for (i, _) in fams.iter().enumerate() {
        for &k in kinds {
            for &n in nfbs {
                tasks.push((i, k, n));
            }
        }
    }
    // big automata first for better balance
    tasks.sort_by_key(|t| std::cmp::Reverse(fams[t.0].1.pats.iter().map(Vec::len).sum::<usize>()));
    let mut acc = par_for(tasks.len(), |ti, acc| {
        let (fi, kind, nfb) = tasks[ti];
        let (variant, fam) = &fams[fi];
        let cfg = Cfg::new(*variant, kind, nfb, Entry::Builder);
        let origin = origin_json(fam, level, &cfg);
        set_case(prop, "table", origin.clone());
        if let Some(built) = e2::build_or_violate(prop, "table", cfg, &fam.pats, None, acc) {
            let item = PopItem {
                fam,
                built,
                origin,
            };
            f(&item, acc);
        }
    });
    acc.count("families", fams.len() as u64);
    acc
}

/// Rebuilds the automaton a table/bisim replay file describes.
pub fn rebuild(case: &Value) -> (Cfg, Vec<Vec<u8>>, Option<Vec<u32>>) {
    let cfg = Cfg::from_json(case);
    if let Some(name) = case["family"].as_str() {
        let level = case["level"].as_u64().unwrap_or(1) as u32;
        let seed = case["seed"].as_u64().unwrap_or(0);
        let all: Vec<Family> = families::byte_families(level.max(1), seed)
            .into_iter()
            .chain(families::char_families(level.max(1), seed))
            .collect();
        let fam = all
            .into_iter()
            .find(|f| f.name == name)
            .unwrap_or_else(|| panic!("unknown family {name}"));
        (cfg, fam.pats, None)
    } else if let Some(name) = case["scale_case"].as_str() {
        (cfg, crate::scale::case_patterns(name).unwrap_or_else(|| panic!("unknown scale case {name}")), None)
    } else if case.get("huge_family").is_some() {
        (cfg, families::huge_random_5byte(case["seed"].as_u64().unwrap_or(0)), None)
    } else {
        let pats: Vec<Vec<u8>> = case["patterns"]
            .as_array()
            .expect("patterns")
            .iter()
            .map(|p| util::unhex(p.as_str().unwrap()))
            .collect();
        let vals: Option<Vec<u32>> = case["values"]
            .as_array()
            .map(|a| a.iter().map(|x| x.as_u64().unwrap() as u32).collect());
        (cfg, pats, vals)
    }
}

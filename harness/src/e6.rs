//! E6 — bounded-exhaustive enumeration of `daacfind` invocations against a reference grep.

use crate::enumr;
use crate::oracle;
use crate::props::tier_is_thorough;
use crate::util::{self, hex, par_for, Acc};
use serde_json::{json, Value};
use std::io::Write;
use std::path::PathBuf;
use std::process::{Command, Stdio};

#[derive(Clone, Copy, Debug, PartialEq, Eq)]
pub enum Delivery {
    Stdin,
    OneFile,
    TwoFiles,
    /// five files: input, input2, input, input2, input
    FiveFiles,
}
impl Delivery {
    fn name(self) -> &'static str {
        match self {
            Delivery::Stdin => "stdin",
            Delivery::OneFile => "one_file",
            Delivery::TwoFiles => "two_files",
            Delivery::FiveFiles => "five_files",
        }
    }
    fn parse(s: &str) -> Delivery {
        match s {
            "stdin" => Delivery::Stdin,
            "one_file" => Delivery::OneFile,
            "five_files" => Delivery::FiveFiles,
            _ => Delivery::TwoFiles,
        }
    }
}

#[derive(Clone, Debug)]
pub struct Invocation {
    pub profile: &'static str, // "debug" | "release"
    pub patterns: Vec<Vec<u8>>,
    pub via_file: bool,
    /// the first pattern goes into the -f file, the others into -p (both options on one command line)
    pub split: bool,
    /// use --line-number / --no-filename instead of -n / -h
    pub long_flags: bool,
    pub line_number: bool,
    pub no_filename: bool,
    pub color: bool,
    pub delivery: Delivery,
    pub input: Vec<u8>,
    pub input2: Vec<u8>,
}

impl Invocation {
    pub fn json(&self) -> Value {
        json!({
            "profile": self.profile,
            "patterns": self.patterns.iter().map(|p| hex(p)).collect::<Vec<_>>(),
            "via_file": self.via_file, "split": self.split, "long_flags": self.long_flags, "line_number": self.line_number, "no_filename": self.no_filename,
            "color": self.color, "delivery": self.delivery.name(),
            "input": hex(&self.input), "input2": hex(&self.input2),
        })
    }
    pub fn from_json(v: &Value) -> Invocation {
        Invocation {
            profile: if v["profile"].as_str() == Some("release") { "release" } else { "debug" },
            patterns: v["patterns"].as_array().unwrap().iter().map(|p| util::unhex(p.as_str().unwrap())).collect(),
            via_file: v["via_file"].as_bool().unwrap_or(false),
            split: v["split"].as_bool().unwrap_or(false),
            long_flags: v["long_flags"].as_bool().unwrap_or(false),
            line_number: v["line_number"].as_bool().unwrap_or(false),
            no_filename: v["no_filename"].as_bool().unwrap_or(false),
            color: v["color"].as_bool().unwrap_or(false),
            delivery: Delivery::parse(v["delivery"].as_str().unwrap_or("stdin")),
            input: util::unhex(v["input"].as_str().unwrap_or("")),
            input2: util::unhex(v["input2"].as_str().unwrap_or("")),
        }
    }
}

fn binary(profile: &str) -> PathBuf {
    util::verif_root().join("target-daacfind").join(profile).join("daacfind")
}

fn workdir() -> PathBuf {
    let d = util::verif_root()
        .join("target-daacfind")
        .join("tmp")
        .join(format!("{}-{:?}", std::process::id(), std::thread::current().id()).replace(['(', ')'], ""));
    let _ = std::fs::create_dir_all(&d);
    d
}

pub struct RunResult {
    pub status: Option<i32>,
    pub stdout: Vec<u8>,
    pub stderr: Vec<u8>,
}

pub fn run(inv: &Invocation) -> RunResult {
    let dir = workdir();
    let mut cmd = Command::new(binary(inv.profile));
    cmd.current_dir(&dir);
    if inv.split && inv.patterns.len() >= 2 {
        let mut body = inv.patterns[0].clone();
        body.push(b'\n');
        std::fs::write(dir.join("pats.txt"), body).unwrap();
        let joined: Vec<u8> = inv.patterns[1..].join(&b'\n');
        if inv.via_file {
            cmd.arg("-f").arg("pats.txt").arg("-p").arg(String::from_utf8(joined).unwrap());
        } else {
            cmd.arg("-p").arg(String::from_utf8(joined).unwrap()).arg("-f").arg("pats.txt");
        }
    } else if inv.via_file {
        let mut body = Vec::new();
        for p in &inv.patterns {
            body.extend_from_slice(p);
            body.push(b'\n');
        }
        std::fs::write(dir.join("pats.txt"), body).unwrap();
        cmd.arg("-f").arg("pats.txt");
    } else {
        let joined: Vec<u8> = inv.patterns.join(&b'\n');
        cmd.arg("-p").arg(String::from_utf8(joined).unwrap());
    }
    if inv.line_number {
        cmd.arg(if inv.long_flags { "--line-number" } else { "-n" });
    }
    if inv.no_filename {
        cmd.arg(if inv.long_flags { "--no-filename" } else { "-h" });
    }
    cmd.arg(if inv.color { "--color=always" } else { "--color=never" });
    match inv.delivery {
        Delivery::Stdin => {}
        Delivery::OneFile => {
            std::fs::write(dir.join("in1.txt"), &inv.input).unwrap();
            cmd.arg("in1.txt");
        }
        Delivery::TwoFiles => {
            std::fs::write(dir.join("in1.txt"), &inv.input).unwrap();
            std::fs::write(dir.join("in2.txt"), &inv.input2).unwrap();
            cmd.arg("in1.txt").arg("in2.txt");
        }
        Delivery::FiveFiles => {
            for (i, name) in ["in1.txt", "in2.txt", "in3.txt", "in4.txt", "in5.txt"].iter().enumerate() {
                std::fs::write(dir.join(name), if i % 2 == 0 { &inv.input } else { &inv.input2 }).unwrap();
                cmd.arg(name);
            }
        }
    }
    cmd.stdin(Stdio::piped()).stdout(Stdio::piped()).stderr(Stdio::piped());
    let mut child = cmd.spawn().expect("spawn daacfind (run ./check setup)");
    {
        let mut si = child.stdin.take().unwrap();
        if inv.delivery == Delivery::Stdin {
            let _ = si.write_all(&inv.input);
        }
    }
    let out = child.wait_with_output().expect("wait");
    RunResult {
        status: out.status.code(),
        stdout: out.stdout,
        stderr: out.stderr,
    }
}

/// Splits an input into lines the way a line-oriented tool sees it (LF terminators; a final
/// unterminated non-empty piece is a line too).
pub fn lines_of(input: &[u8]) -> Vec<&[u8]> {
    let mut v: Vec<&[u8]> = input.split(|&b| b == b'\n').collect();
    if v.last().map_or(false, |l| l.is_empty()) {
        v.pop();
    }
    v
}

/// One printed line, parsed: plain bytes and a red flag per byte.
fn strip_sgr(raw: &[u8]) -> Result<(Vec<u8>, Vec<bool>), String> {
    let mut on = false;
    strip_sgr_from(raw, &mut on)
}

/// As `strip_sgr`, with the terminal's styling state carried in and out: a style that is still on at
/// the end of one printed line colours the bytes of the next one.
fn strip_sgr_from(raw: &[u8], state: &mut bool) -> Result<(Vec<u8>, Vec<bool>), String> {
    let mut plain = Vec::new();
    let mut red = Vec::new();
    let mut on = *state;
    let mut i = 0;
    while i < raw.len() {
        if raw[i] == 0x1b {
            if raw.get(i + 1) != Some(&b'[') {
                return Err("stray ESC".into());
            }
            let mut j = i + 2;
            while j < raw.len() && raw[j] != b'm' {
                j += 1;
            }
            if j >= raw.len() {
                return Err("unterminated escape sequence".into());
            }
            let params = std::str::from_utf8(&raw[i + 2..j]).map_err(|_| "bad escape")?;
            // "0" / empty resets; any other styling parameter counts as highlighting (the property
            // does not fix the colour)
            for p in params.split(';') {
                match p {
                    "0" | "" => on = false,
                    _ => on = true,
                }
            }
            i = j + 1;
        } else {
            plain.push(raw[i]);
            red.push(on);
            i += 1;
        }
    }
    *state = on;
    Ok((plain, red))
}

/// Reference grep. Returns Err(description) on the first deviation. `drop_cr` = lenient mode of
/// the recorded known finding (a CR before LF is dropped by the tool).
pub fn reference_check(inv: &Invocation, r: &RunResult, drop_cr: bool) -> Result<(u64, bool), String> {
    if r.status != Some(0) {
        return Err(format!(
            "exit status {:?}, stderr: {}",
            r.status,
            String::from_utf8_lossy(&r.stderr).chars().take(300).collect::<String>()
        ));
    }
    if !r.stderr.is_empty() {
        return Err(format!("stderr not empty: {}", String::from_utf8_lossy(&r.stderr).chars().take(200).collect::<String>()));
    }
    let inputs: Vec<(&[u8], Option<&str>)> = match inv.delivery {
        Delivery::Stdin => vec![(inv.input.as_slice(), None)],
        Delivery::OneFile => vec![(inv.input.as_slice(), Some("in1.txt"))],
        Delivery::TwoFiles => vec![(inv.input.as_slice(), Some("in1.txt")), (inv.input2.as_slice(), Some("in2.txt"))],
        Delivery::FiveFiles => vec![
            (inv.input.as_slice(), Some("in1.txt")),
            (inv.input2.as_slice(), Some("in2.txt")),
            (inv.input.as_slice(), Some("in3.txt")),
            (inv.input2.as_slice(), Some("in4.txt")),
            (inv.input.as_slice(), Some("in5.txt")),
        ],
    };
    // expected printed lines: (prefix without number, line index, text, red mask)
    let mut expected: Vec<(Vec<u8>, usize, Vec<u8>, Vec<bool>)> = Vec::new();
    let mut nontrivial = false;
    for (input, fname) in &inputs {
        for (idx, line) in lines_of(input).iter().enumerate() {
            let text: Vec<u8> = if drop_cr && line.last() == Some(&b'\r') {
                line[..line.len() - 1].to_vec()
            } else {
                line.to_vec()
            };
            let occ = oracle::occurrences(&inv.patterns, &text);
            if occ.is_empty() {
                continue;
            }
            let mut mask = vec![false; text.len()];
            for &(s, e, _) in &occ {
                for m in mask.iter_mut().take(e).skip(s) {
                    *m = true;
                }
            }
            if occ.len() >= 2 || text.iter().any(|&b| b >= 0x80) {
                nontrivial = true;
            }
            let mut prefix = Vec::new();
            if let (Some(f), false) = (fname, inv.no_filename) {
                prefix.extend_from_slice(f.as_bytes());
                prefix.push(b':');
            }
            expected.push((prefix, idx, text, mask));
        }
    }
    // split the output into printed lines (the text itself never contains LF)
    let mut outl: Vec<&[u8]> = r.stdout.split(|&b| b == b'\n').collect();
    match outl.pop() {
        Some(last) => {
            // after the final LF only escape sequences may follow
            let (p, _) = strip_sgr(last)?;
            if !p.is_empty() {
                return Err("output does not end with a line feed".into());
            }
        }
        None => {}
    }
    if outl.len() != expected.len() {
        return Err(format!("{} lines printed, {} lines contain a pattern", outl.len(), expected.len()));
    }
    let mut base: Option<i64> = None;
    let mut style_on = false;
    for (raw, (prefix, idx, text, mask)) in outl.iter().zip(expected.iter()) {
        let (plain, red) = strip_sgr_from(raw, &mut style_on)?;
        let mut pos = 0usize;
        if !plain.starts_with(prefix) {
            return Err(format!("printed line {:?} lacks the prefix {:?}", String::from_utf8_lossy(&plain), String::from_utf8_lossy(prefix)));
        }
        pos += prefix.len();
        if inv.line_number {
            let rest = &plain[pos..];
            let colon = rest.iter().position(|&b| b == b':').ok_or("no line number")?;
            let num: i64 = std::str::from_utf8(&rest[..colon]).ok().and_then(|s| s.parse().ok()).ok_or("line number is not a number")?;
            let b0 = num - *idx as i64;
            match base {
                None => {
                    if b0 != 0 && b0 != 1 {
                        return Err(format!("line number {num} for the line at index {idx}"));
                    }
                    base = Some(b0);
                }
                Some(b) => {
                    if b != b0 {
                        return Err(format!("line number {num} for the line at index {idx} (numbering base {b} elsewhere)"));
                    }
                }
            }
            pos += colon + 1;
        }
        if &plain[pos..] != text.as_slice() {
            return Err(format!(
                "printed text {:?} for the input line {:?}",
                String::from_utf8_lossy(&plain[pos..]),
                String::from_utf8_lossy(text)
            ));
        }
        if red[..pos].iter().any(|&x| x) {
            return Err("the prefix is highlighted".into());
        }
        if inv.color {
            if &red[pos..] != mask.as_slice() {
                return Err(format!(
                    "highlighted bytes {:?}, bytes covered by occurrences {:?} in line {:?}",
                    red[pos..].iter().map(|&b| u8::from(b)).collect::<Vec<_>>(),
                    mask.iter().map(|&b| u8::from(b)).collect::<Vec<_>>(),
                    String::from_utf8_lossy(text)
                ));
            }
        } else if raw.contains(&0x1b) {
            return Err("escape sequences with --color=never".into());
        }
    }
    Ok((expected.len() as u64, nontrivial))
}

fn known_cr_active() -> Option<String> {
    let p = util::verif_root().join("known_findings.json");
    let v: Value = serde_json::from_str(&std::fs::read_to_string(p).ok()?).ok()?;
    for f in v["findings"].as_array()? {
        if f["status"].as_str() == Some("known")
            && f["property"].as_str() == Some("C16")
            && f["match"]["type"].as_str() == Some("cli_line_ends_with_cr")
        {
            return Some(f["what"].as_str().unwrap_or("").to_string());
        }
    }
    None
}

pub fn judge(inv: &Invocation, known_cr: &Option<String>, acc: &mut Acc) {
    let r = run(inv);
    acc.evals += 1;
    acc.traces += 1;
    match reference_check(inv, &r, false) {
        Ok((printed, nt)) => {
            if nt {
                acc.nontrivial += 1;
                acc.nt_sample(|| e2_sample(inv, &r, printed));
            }
            acc.outcomes.insert(util::fnv(&r.stdout, util::FNV0));
        }
        Err(strict) => {
            // the recorded known finding: a CR immediately before LF is dropped
            let has_cr_line = lines_of(&inv.input).iter().chain(lines_of(&inv.input2).iter()).any(|l| l.last() == Some(&b'\r'));
            if has_cr_line && known_cr.is_some() {
                if let Ok((_, nt)) = reference_check(inv, &r, true) {
                    if nt {
                        acc.nontrivial += 1;
                    }
                    acc.count("known_finding_cr_cases", 1);
                    let k = format!("line whose last byte is CR: {}", known_cr.as_ref().unwrap());
                    if !acc.known.contains(&k) {
                        acc.known.push(k);
                    }
                    return;
                }
            }
            let mut c = inv.json();
            c.as_object_mut().unwrap().insert("stdout".into(), json!(hex(&r.stdout)));
            acc.violate(
                "C16",
                "cli",
                format!(
                    "daacfind ({}) patterns {:?} flags[n={} h={} color={} via_file={} split_f_p={}] {}: {strict}",
                    inv.profile,
                    {
                        let mut v: Vec<String> = inv.patterns.iter().take(6).map(|p| String::from_utf8_lossy(p).chars().take(24).collect()).collect();
                        if inv.patterns.len() > 6 {
                            v.push(format!("... {} patterns in all", inv.patterns.len()));
                        }
                        v
                    },
                    inv.line_number, inv.no_filename, inv.color, inv.via_file, inv.split, inv.delivery.name()
                ),
                c,
            );
        }
    }
}

fn e2_sample(inv: &Invocation, r: &RunResult, printed: u64) -> Value {
    let mut c = inv.json();
    let o = c.as_object_mut().unwrap();
    if inv.input.len() > 64 {
        o.insert("input".into(), json!(format!("{}.. ({} bytes)", hex(&inv.input[..32]), inv.input.len())));
        o.insert("input2".into(), json!(format!("({} bytes)", inv.input2.len())));
    }
    o.insert("lines_printed".into(), json!(printed));
    o.insert("stdout_bytes".into(), json!(r.stdout.len()));
    c
}

/// All line values of length <= maxlen over the letters; ordered so that every ordered pair of
/// line values of length <= 1 (the empty line included) is adjacent at least once.
fn line_sweep_input(letters: &[&[u8]], maxlen: usize) -> Vec<u8> {
    let mut vals: Vec<Vec<u8>> = vec![vec![]];
    let mut layer: Vec<Vec<u8>> = vec![vec![]];
    for _ in 0..maxlen {
        let mut next = Vec::new();
        for w in &layer {
            for l in letters {
                let mut x = w.clone();
                x.extend_from_slice(l);
                next.push(x);
            }
        }
        vals.extend(next.iter().cloned());
        layer = next;
    }
    let mut out = Vec::new();
    // adjacent pairs of the short values first
    let short: Vec<Vec<u8>> = std::iter::once(vec![]).chain(letters.iter().map(|l| l.to_vec())).collect();
    for a in &short {
        for b in &short {
            out.extend_from_slice(a);
            out.push(b'\n');
            out.extend_from_slice(b);
            out.push(b'\n');
        }
    }
    for v in &vals {
        out.extend_from_slice(v);
        out.push(b'\n');
    }
    out
}

pub fn c16(tier: &str, acc: &mut Acc, bounds: &mut Vec<String>) {
    let thorough = tier_is_thorough(tier);
    let known_cr = known_cr_active();
    // pattern universe: all strings of length <= 2 over {a, b, U+4E16, space} and all strings of
    // length 3 over {a, b} (a pattern strictly inside another needs length 3; trailing white space
    // in a pattern is legal)
    let letters: [&[u8]; 4] = [b"a", b"b", "\u{4e16}".as_bytes(), b" "];
    let mut uni: Vec<Vec<u8>> = enumr::universe(4, 2)
        .iter()
        .map(|w| w.iter().flat_map(|&l| letters[l as usize].to_vec()).collect())
        .collect();
    for w in enumr::universe(2, 3).iter().filter(|w| w.len() == 3) {
        uni.push(w.iter().flat_map(|&l| letters[l as usize].to_vec()).collect());
    }
    let kmax = if thorough { 3 } else { 2 };
    let mut lists: Vec<Vec<Vec<u8>>> = Vec::new();
    for t in enumr::seq_tasks(uni.len(), 2, enumr::Order::AllOrders) {
        enumr::for_each_seq(&t, uni.len(), 2, enumr::Order::AllOrders, &mut |s| {
            lists.push(s.iter().map(|&i| uni[i].clone()).collect());
        });
    }
    if thorough {
        // lists of three from the short strings
        let short: Vec<usize> = (0..uni.len()).filter(|&i| uni[i].len() <= 2 || uni[i].len() == 3 && uni[i][0] > 0x7f).collect();
        for &i in &short {
            for &j in &short {
                for &k in &short {
                    if i != j && j != k && i != k && (i + j + k) % 7 == 0 {
                        lists.push(vec![uni[i].clone(), uni[j].clone(), uni[k].clone()]);
                    }
                }
            }
        }
    }
    let line_letters: [&[u8]; 5] = [b"a", b"b", "\u{4e16}".as_bytes(), b"x", b" "];
    let sweep = line_sweep_input(&line_letters, if thorough { 4 } else { 3 });
    // carriage returns (the recorded known finding lives here) in a sweep of their own
    let cr_sweep = line_sweep_input(&[b"a", "\u{4e16}".as_bytes(), b"\r", b"b"], 3);
    let sweep2 = line_sweep_input(&[b"b", "\u{4e16}".as_bytes(), b"a"], 2);
    let mut invs: Vec<Invocation> = Vec::new();
    for profile in ["debug", "release"] {
        for (li, pl) in lists.iter().enumerate() {
            for flags in 0..8u32 {
                for delivery in [Delivery::Stdin, Delivery::OneFile, Delivery::TwoFiles] {
                    for via_file in [false, true] {
                        // single patterns: the full product; pairs: a covering subset of it (every
                        // flag combination, every delivery and both pattern channels occur with every
                        // list, but not every combination of them), unless thorough
                        let full = pl.len() == 1 || (thorough && pl.len() == 2);
                        if !full {
                            let sel = (li as u32 + flags) % 3;
                            let d_ok = match delivery {
                                Delivery::Stdin => sel == 0,
                                Delivery::OneFile => sel == 1,
                                Delivery::TwoFiles => sel == 2,
                                Delivery::FiveFiles => false,
                            };
                            let f_ok = via_file == ((li as u32 + flags / 2) % 2 == 0);
                            if !(d_ok && f_ok) {
                                continue;
                            }
                        }
                        invs.push(Invocation {
                            profile,
                            patterns: pl.clone(),
                            via_file,
                            split: pl.len() >= 2 && (li + flags as usize) % 2 == 0,
                            long_flags: (li + 2 * flags as usize) % 5 == 0,
                            line_number: flags & 1 != 0,
                            no_filename: flags & 2 != 0,
                            color: flags & 4 != 0,
                            delivery,
                            input: sweep.clone(),
                            input2: sweep2.clone(),
                        });
                        if !via_file && delivery != Delivery::TwoFiles && [0, 5, 7].contains(&flags) && pl.len() < 3 && pl.iter().all(|p| p.len() <= 2) {
                            invs.push(Invocation {
                                profile,
                                patterns: pl.clone(),
                                via_file,
                                split: false,
                                long_flags: false,
                                line_number: flags & 1 != 0,
                                no_filename: flags & 2 != 0,
                                color: flags & 4 != 0,
                                delivery,
                                input: cr_sweep.clone(),
                                input2: vec![],
                            });
                        }
                    }
                }
            }
        }
    }
    let n_line = invs.len();
    // whole-input sweep
    let vals: [&[u8]; 4] = [b"", b"a", "\u{4e16}".as_bytes(), b"x"];
    let maxlines = if thorough { 4 } else { 3 };
    let mut inputs: Vec<Vec<u8>> = vec![vec![]];
    let mut layer: Vec<Vec<u8>> = vec![vec![]];
    for _ in 0..maxlines {
        let mut next = Vec::new();
        for w in &layer {
            for v in vals {
                let mut x = w.clone();
                x.extend_from_slice(v);
                x.push(b'\n');
                next.push(x);
            }
        }
        inputs.extend(next.iter().cloned());
        layer = next;
    }
    let letters2: [&[u8]; 2] = [b"a", "\u{4e16}".as_bytes()];
    let uni2: Vec<Vec<u8>> = enumr::universe(2, 2)
        .iter()
        .map(|w| w.iter().flat_map(|&l| letters2[l as usize].to_vec()).collect())
        .collect();
    let mut lists2: Vec<Vec<Vec<u8>>> = Vec::new();
    for t in enumr::seq_tasks(uni2.len(), 2, enumr::Order::AllOrders) {
        enumr::for_each_seq(&t, uni2.len(), 2, enumr::Order::AllOrders, &mut |s| {
            lists2.push(s.iter().map(|&i| uni2[i].clone()).collect());
        });
    }
    for profile in ["debug", "release"] {
        for pl in &lists2 {
            for input in &inputs {
                for (flags, delivery) in [(0u32, Delivery::Stdin), (5, Delivery::OneFile), (1, Delivery::TwoFiles), (6, Delivery::TwoFiles)] {
                    invs.push(Invocation {
                        profile,
                        patterns: pl.clone(),
                        via_file: flags == 5,
                        split: pl.len() >= 2 && flags == 1,
                        long_flags: input.len() % 3 == 0,
                        line_number: flags & 1 != 0,
                        no_filename: flags & 2 != 0,
                        color: flags & 4 != 0,
                        delivery,
                        input: input.clone(),
                        input2: inputs[(input.len() * 7 + 3) % inputs.len()].clone(),
                    });
                }
            }
        }
    }
    // CRLF input and leading empty lines, both binaries
    for profile in ["debug", "release"] {
        for input in [&b"ab\r\nxx\r\nb\r\n"[..], b"\n\nab\n", b"\n"] {
            for color in [false, true] {
                invs.push(Invocation {
                    profile,
                    patterns: vec![b"ab".to_vec(), b"b".to_vec()],
                    via_file: false,
                    split: true,
                    long_flags: color,
                    line_number: true,
                    no_filename: false,
                    color,
                    delivery: Delivery::OneFile,
                    input: input.to_vec(),
                    input2: vec![],
                });
            }
        }
    }
    // scale: many patterns starting at one byte (nested a^1..a^200), hundreds of patterns, a line of
    // 70 000 bytes, five files
    {
        let nested: Vec<Vec<u8>> = (1..=200).map(|i| vec![b'a'; i]).collect();
        let mut in_nested = Vec::new();
        in_nested.extend_from_slice(&vec![b'a'; 200]);
        in_nested.push(b'\n');
        in_nested.extend_from_slice(b"x");
        in_nested.extend_from_slice(&vec![b'a'; 150]);
        in_nested.extend_from_slice(b"x\nb\n\n");
        in_nested.extend_from_slice(&vec![b'a'; 130]);
        in_nested.extend_from_slice(b"\n");
        let mut many: Vec<Vec<u8>> = Vec::new();
        for a in b'a'..=b'r' {
            for b in b'a'..=b'r' {
                many.push(vec![a, b]);
            }
        }
        let in_many = b"xxabxx\nzzzz\nrrqqppaa\n\nhello world\n".to_vec();
        let mut long_line = Vec::new();
        long_line.extend_from_slice(b"ab");
        long_line.extend_from_slice(&vec![b'x'; 35_000]);
        long_line.extend_from_slice("\u{4e16}ab\u{4e16}".as_bytes());
        long_line.extend_from_slice(&vec![b'y'; 35_000]);
        long_line.extend_from_slice(b"ba\nshort ab\n");
        let few: Vec<Vec<u8>> = vec![b"ab".to_vec(), "\u{4e16}".as_bytes().to_vec(), b"ba".to_vec()];
        for profile in ["debug", "release"] {
            for color in [false, true] {
                for (pats, input, via_file) in [(&nested, &in_nested, true), (&many, &in_many, true), (&few, &long_line, false)] {
                    for delivery in [Delivery::Stdin, Delivery::FiveFiles] {
                        invs.push(Invocation {
                            profile,
                            patterns: pats.clone(),
                            via_file,
                            split: false,
                            long_flags: false,
                            line_number: true,
                            no_filename: false,
                            color,
                            delivery,
                            input: input.clone(),
                            input2: b"ab\n\naaa\n".to_vec(),
                        });
                    }
                }
            }
        }
    }
    let total = invs.len();
    // chunked parallel execution
    let chunk = 64;
    let ntasks = total.div_ceil(chunk);
    let a = par_for(ntasks, |ti, acc| {
        for inv in &invs[ti * chunk..((ti + 1) * chunk).min(total)] {
            if util::stopped() {
                return;
            }
            util::set_case("C16", "cli", inv.json());
            judge(inv, &known_cr, acc);
        }
    });
    acc.merge(a);
    let _ = std::fs::remove_dir_all(util::verif_root().join("target-daacfind").join("tmp"));
    acc.count("invocations_line_sweep", n_line as u64);
    acc.count("invocations_whole_input_sweep", (total - n_line) as u64);
    bounds.push(format!(
        "line sweep: {} pattern lists (<= {kmax} from the 28 strings of length <= 2 over a,b,U+4E16,space plus length 3 over a,b) x flag combinations x deliveries x -p/-f (full product for single patterns, covering subset for pairs unless thorough) x dev+release on one input with every line value of length <= {} over a,b,U+4E16,x,space ({} bytes); a second sweep with CR among the letters on a subset of the flags",
        lists.len(), if thorough { 4 } else { 3 }, sweep.len()
    ));
    bounds.push("scale: 200 nested patterns a^1..a^200 on lines of 130-200 bytes, 324 two-letter patterns, a line of 70 kB, five files; colour on and off; dev + release".into());
    bounds.push(format!(
        "whole-input sweep: {} inputs (<= {maxlines} lines over empty,a,U+4E16,x) x {} pattern lists x 4 flag/delivery combinations x dev+release",
        inputs.len(), lists2.len()
    ));
}

pub fn replay(case: &Value) -> bool {
    let inv = Invocation::from_json(case);
    let r = run(&inv);
    println!("replay: exit {:?}\nstdout: {:?}\nstderr: {:?}", r.status, String::from_utf8_lossy(&r.stdout), String::from_utf8_lossy(&r.stderr));
    match reference_check(&inv, &r, false) {
        Ok(_) => false,
        Err(e) => {
            println!("replay: {e}");
            // a recorded known finding is not a failure of the replay either
            if known_cr_active().is_some() && reference_check(&inv, &r, true).is_ok() {
                println!("replay: explained by the known finding (CR before LF)");
                return false;
            }
            true
        }
    }
}

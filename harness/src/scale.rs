//! Scale cases: haystacks, patterns and pattern counts beyond 255 / 65 535, where a narrow cursor,
//! length or index type would wrap. Oracle: the reference automaton's occurrence list and the
//! linear-time oracles (validated against the definitional ones in the small scope).

use crate::auto::{Cfg, Entry, Kind, Method, Variant};
use crate::e2::{self, Built};
use crate::oracle::{self, RefAc};
use crate::props::tier_is_thorough;
use crate::util::{self, hex, par_for, set_case, Acc};
use serde_json::json;

fn expected(method: Method, kind: Kind, occ: &[oracle::Occ], n: usize) -> Vec<oracle::Occ> {
    match method {
        Method::Find | Method::FindIt => oracle::f_find(occ),
        Method::Ovl | Method::OvlIt => oracle::f_overlapping(occ),
        Method::NoSuf | Method::NoSufIt => oracle::f_no_suffix(occ),
        Method::Lm => match kind {
            Kind::LL => oracle::f_leftmost_longest(occ, n),
            Kind::LF => oracle::f_leftmost_first(occ, n),
            Kind::Std => unreachable!(),
        },
    }
}

struct Case {
    name: String,
    pats: Vec<Vec<u8>>,
    hays: Vec<Vec<u8>>,
    utf8: bool,
}

fn repeat_to(unit: &[u8], len: usize) -> Vec<u8> {
    let mut v = Vec::with_capacity(len + unit.len());
    while v.len() + unit.len() <= len {
        v.extend_from_slice(unit);
    }
    // pad with a byte that is in no pattern
    while v.len() < len {
        v.push(b'z');
    }
    v
}

fn cases(thorough: bool) -> Vec<Case> {
    let mut v = Vec::new();
    let lens = [255usize, 256, 257, 65_535, 65_536, 65_537, 70_001];
    // short patterns, long haystacks (ASCII and multi-byte)
    v.push(Case {
        name: "short patterns, haystacks of 255..70001 bytes".into(),
        pats: ["ab", "b", "abc", "ca", "cab"].iter().map(|s| s.as_bytes().to_vec()).collect(),
        hays: lens.iter().map(|&l| repeat_to(b"abcab", l)).collect(),
        utf8: true,
    });
    v.push(Case {
        name: "multi-byte patterns, haystacks of 255..70001 bytes".into(),
        pats: ["\u{4e16}\u{754c}", "\u{754c}", "a\u{4e16}", "\u{e9}a", "\u{1f600}"].iter().map(|s| s.as_bytes().to_vec()).collect(),
        hays: lens.iter().map(|&l| repeat_to("a\u{4e16}\u{754c}\u{e9}a\u{1f600}".as_bytes(), l)).collect(),
        utf8: true,
    });
    // one pattern longer than 65 535 bytes (and its prefixes of 255/256/257 bytes)
    let long: Vec<u8> = (0..66_000usize).map(|i| b'a' + ((i * i + i / 7) % 23) as u8).collect();
    let mut pats = vec![long.clone(), long[..255].to_vec(), long[..256].to_vec(), long[..257].to_vec(), long[65_000..65_600].to_vec(), b"z".to_vec()];
    pats.dedup();
    let mut h1 = b"zz".to_vec();
    h1.extend_from_slice(&long);
    h1.extend_from_slice(b"z");
    let mut h2 = long[..65_999].to_vec();
    h2.extend_from_slice(b"z");
    h2.extend_from_slice(&long[..300]);
    v.push(Case {
        name: "a pattern of 66000 bytes".into(),
        pats,
        hays: vec![h1, h2],
        utf8: true,
    });
    // more than 65 535 patterns (output positions and values above 0xffff): every pair over 272
    // two-byte characters, registered in code-point order, plus some triples; the haystack walks the
    // *last* pairs (highest output positions) and the triples
    {
        let al: Vec<char> = (0..272u32).map(|i| char::from_u32(0x100 + i).unwrap()).collect();
        let mut pats: Vec<Vec<u8>> = Vec::new();
        for &a in &al {
            for &b in &al {
                let mut s = String::new();
                s.push(a);
                s.push(b);
                pats.push(s.into_bytes());
            }
        }
        for i in 0..300usize {
            let mut s = String::new();
            s.push(al[271 - i % 7]);
            s.push(al[(i * 5) % 272]);
            s.push(al[(i * 11 + 3) % 272]);
            pats.push(s.into_bytes());
        }
        let mut hay = String::new();
        for i in 0..600usize {
            hay.push(al[271 - i % 5]);
            hay.push(al[(i * 7) % 272]);
            hay.push(al[(i * 11 + 3) % 272]);
            hay.push(al[i % 272]);
        }
        v.push(Case {
            name: "74284 patterns (output positions and values above 65535), char pairs".into(),
            pats,
            hays: vec![hay.into_bytes()],
            utf8: true,
        });
    }
    // more than 256 patterns ending at one position (counters of the output-chain walk): runs
    // y^1..y^300 and all 300 suffixes of a 300-byte word
    {
        let w = &long[..300];
        let mut pats: Vec<Vec<u8>> = (1..=300usize).map(|l| vec![b'y'; l]).collect();
        for s in 0..300usize {
            pats.push(w[s..].to_vec());
        }
        let mut h = vec![b'y'; 310];
        h.push(b'z');
        h.extend_from_slice(w);
        h.push(b'z');
        h.extend_from_slice(&w[5..]);
        h.extend_from_slice(&[b'y'; 257]);
        v.push(Case {
            name: "600 nested patterns: up to 300 patterns end at one position".into(),
            pats,
            hays: vec![h],
            utf8: true,
        });
    }
    // one character occurring more than 65 535 times in the collection (frequency counters of the
    // char-wise code mapper): inside one pattern, and spread over 66 000 patterns
    {
        let mut h = vec![b'y'; 70_001];
        h.push(b'z');
        h.extend_from_slice(&[b'y'; 3]);
        v.push(Case {
            name: "one character 70000 times in one pattern".into(),
            pats: vec![vec![b'y'; 70_000], b"y".to_vec(), b"yyz".to_vec()],
            hays: vec![h],
            utf8: true,
        });
        let al: Vec<u8> = (b'A'..=b'Z').chain(b'a'..=b'o').collect();
        let enc = |i: usize| vec![b'x', al[i / (41 * 41)], al[(i / 41) % 41], al[i % 41]];
        let pats: Vec<Vec<u8>> = (0..66_000usize).map(enc).collect();
        let mut h: Vec<u8> = Vec::new();
        for i in (0..66_000usize).rev().step_by(61) {
            h.extend_from_slice(&enc(i));
            h.push(al[i % 41]);
        }
        v.push(Case {
            name: "66000 patterns sharing one character".into(),
            pats,
            hays: vec![h],
            utf8: true,
        });
    }
    if thorough {
        // the same with raw bytes: every 2-byte string over 256 labels and some 3-byte strings
        let mut pats: Vec<Vec<u8>> = Vec::new();
        for a in 0..=255u8 {
            for b in 0..=255u8 {
                pats.push(vec![a, b]);
            }
        }
        for i in 0..5000usize {
            pats.push(vec![(i % 256) as u8, (i / 256) as u8, 0xff - (i % 7) as u8]);
        }
        let mut hay: Vec<u8> = (0..4000usize).map(|i| ((i * 37 + i / 11) % 256) as u8).collect();
        for i in 0..2000usize {
            hay.push(0xff - (i % 3) as u8);
            hay.push((i % 256) as u8);
            hay.push(0xff - (i % 7) as u8);
        }
        v.push(Case {
            name: "70536 patterns (values above 65535), raw bytes".into(),
            pats,
            hays: vec![hay],
            utf8: false,
        });
    }
    v
}

pub fn scale_cases(prop: &str, kinds: &[Kind], methods: &[Method], tier: &str, acc: &mut Acc, bounds: &mut Vec<String>) {
    let thorough = tier_is_thorough(tier);
    let cs = cases(thorough);
    let mut tasks: Vec<(usize, Variant, Kind)> = Vec::new();
    for (i, c) in cs.iter().enumerate() {
        for variant in Variant::ALL {
            if variant == Variant::Char && !c.utf8 {
                continue;
            }
            for &k in kinds {
                tasks.push((i, variant, k));
            }
        }
    }
    let a = par_for(tasks.len(), |ti, acc| {
        let (ci, variant, kind) = tasks[ti];
        let c = &cs[ci];
        let cfg = Cfg::new(variant, kind, None, Entry::Builder);
        let origin = json!({"scale_case": c.name, "variant": variant.name(), "kind": kind.name(), "nfb": null, "entry": "builder"});
        set_case(prop, "enum", origin.clone());
        let Some(b) = e2::build_or_violate(prop, "enum", cfg, &c.pats, None, acc) else {
            return;
        };
        let rep = crate::e1::reportable(kind, &c.pats);
        let rpats: Vec<Vec<u8>> = rep.iter().map(|&i| c.pats[i].clone()).collect();
        let is_char = variant == Variant::Char;
        let refac = if is_char { RefAc::from_chars(&rpats) } else { RefAc::from_bytes(&rpats) };
        let plen: Vec<usize> = rpats.iter().map(Vec::len).collect();
        let rvals: Vec<u32> = rep.iter().map(|&i| b.vals[i]).collect();
        let slot = util::my_slot();
        for hay in &c.hays {
            util::set_hay(&slot, &hay[..hay.len().min(64)]);
            let lab = oracle::labels_of(is_char, hay);
            let occ = refac.occurrences(&lab, &plen);
            acc.evals += 1;
            acc.nontrivial += 1;
            for &m in methods {
                if (m == Method::Lm) != (kind != Kind::Std) {
                    continue;
                }
                util::tick_progress();
                let exp = oracle::with_values(&expected(m, kind, &occ, hay.len()), &rvals);
                let got = std::panic::catch_unwind(std::panic::AssertUnwindSafe(|| b.auto.run(m, hay)));
                acc.traces += 1;
                let got = match got {
                    Ok(g) => g,
                    Err(_) => {
                        acc.violate(prop, "scale", format!("{} panicked on the scale case '{}' ({} bytes): {}", m.name(), c.name, hay.len(), util::take_last_panic().unwrap_or_default()),
                            e2::with(origin.clone(), "haystack_len", json!(hay.len())));
                        continue;
                    }
                };
                if got != exp {
                    let first = got.iter().zip(exp.iter()).position(|(a, b)| a != b).unwrap_or(got.len().min(exp.len()));
                    acc.violate(prop, "scale",
                        format!("{} on the scale case '{}' [{} {}] (haystack of {} bytes): {} matches, expected {}; first difference at match #{first}: got {:?}, expected {:?}",
                            m.name(), c.name, variant.name(), kind.name(), hay.len(), got.len(), exp.len(), got.get(first), exp.get(first)),
                        e2::with(e2::with(origin.clone(), "haystack_len", json!(hay.len())), "method", json!(m.name())));
                }
            }
        }
        let _ = (hex(&[]), &b as &Built);
    });
    acc.merge(a);
    bounds.push(format!("scale cases: haystacks of 255/256/257/65535/65536/65537/70001 bytes, a 66000-byte pattern, 74284 patterns, 300 patterns ending at one position, one character 70000 times in one pattern / in 66000 patterns{} x both variants x kinds {:?}", if thorough { ", 70536 byte patterns" } else { "" }, kinds.iter().map(|k| k.name()).collect::<Vec<_>>()));
}

/// Replays a scale finding by re-running all scale cases of the property.
pub fn replay_scale(case: &serde_json::Value) -> bool {
    let prop = case["property"].as_str().unwrap_or("C01").to_string();
    let mut acc = Acc::new();
    let mut b = Vec::new();
    let kinds: Vec<Kind> = match prop.as_str() {
        "C03" => vec![Kind::LL],
        "C04" => vec![Kind::LF],
        "C06" => Kind::ALL.to_vec(),
        _ => vec![Kind::Std],
    };
    let mut methods = Method::STD.to_vec();
    methods.push(Method::Lm);
    scale_cases(&prop, &kinds, &methods, "quick", &mut acc, &mut b);
    !acc.violations.is_empty()
}

/// C10 at scale: every scale collection is valid and must be accepted by every entry point of both
/// variants (all kinds through the builder) without a panic.
pub fn validity(prop: &str, tier: &str, acc: &mut Acc, bounds: &mut Vec<String>) {
    let cs = cases(tier_is_thorough(tier));
    let mut tasks: Vec<(usize, Cfg)> = Vec::new();
    for (i, c) in cs.iter().enumerate() {
        for variant in Variant::ALL {
            if variant == Variant::Char && !c.utf8 {
                continue;
            }
            for kind in Kind::ALL {
                tasks.push((i, Cfg::new(variant, kind, None, Entry::Builder)));
            }
            tasks.push((i, Cfg::new(variant, Kind::Std, None, Entry::Assoc)));
        }
    }
    let a = par_for(tasks.len(), |ti, acc| {
        let (ci, cfg) = tasks[ti];
        let c = &cs[ci];
        let origin = json!({"scale_case": c.name, "variant": cfg.variant.name(), "kind": cfg.kind.name(), "nfb": null, "entry": cfg.entry.name()});
        set_case(prop, "enum", origin);
        util::tick_progress();
        acc.evals += 1;
        acc.nontrivial += 1;
        for vals in [false, true] {
            let v: Option<Vec<u32>> = vals.then(|| (0..c.pats.len() as u32).rev().collect());
            let _ = e2::build_or_violate(prop, "enum", cfg, &c.pats, v.as_deref(), acc);
            acc.traces += 1;
        }
    });
    acc.merge(a);
    bounds.push(format!("scale validity: the {} scale collections (66000-byte pattern, 74284 patterns, 600 nested patterns, one character 70000 times in one pattern / in 66000 patterns) accepted by builder x 3 kinds and the associated constructors of both variants, with and without values", cs.len()));
}

/// The patterns of a scale case (for replays).
pub fn case_patterns(name: &str) -> Option<Vec<Vec<u8>>> {
    cases(true).into_iter().find(|c| c.name == name).map(|c| c.pats)
}

/// C09 at scale: the round trip of every scale collection (output positions above 65 535, tables of
/// several hundred blocks), both variants, all kinds.
pub fn roundtrip(prop: &str, tier: &str, acc: &mut Acc, bounds: &mut Vec<String>) {
    let cs = cases(tier_is_thorough(tier));
    let mut tasks: Vec<(usize, Cfg)> = Vec::new();
    for (i, c) in cs.iter().enumerate() {
        for variant in Variant::ALL {
            if variant == Variant::Char && !c.utf8 {
                continue;
            }
            for kind in Kind::ALL {
                tasks.push((i, Cfg::new(variant, kind, None, Entry::Builder)));
            }
        }
    }
    let a = par_for(tasks.len(), |ti, acc| {
        let (ci, cfg) = tasks[ti];
        let c = &cs[ci];
        let origin = json!({"scale_case": c.name, "variant": cfg.variant.name(), "kind": cfg.kind.name(), "nfb": null, "entry": cfg.entry.name()});
        set_case(prop, "roundtrip", origin.clone());
        util::tick_progress();
        let Some(b) = e2::build_or_violate(prop, "roundtrip", cfg, &c.pats, None, acc) else {
            return;
        };
        let bytes = b.auto.serialize();
        acc.evals += 1;
        acc.nontrivial += 1;
        let mut src = bytes.clone();
        src.extend_from_slice(&[0xff, 0x00, 0xff]);
        let rt = std::panic::catch_unwind(std::panic::AssertUnwindSafe(|| crate::auto::Auto::deserialize(cfg.variant, &src)));
        acc.traces += 1;
        let (r, off, rest) = match rt {
            Ok(x) => x,
            Err(_) => {
                acc.violate(prop, "roundtrip", format!("deserialize_unchecked panicked on the bytes produced by serialize (scale case '{}'): {}", c.name, util::take_last_panic().unwrap_or_default()), origin.clone());
                return;
            }
        };
        if off != bytes.len() || rest != 3 {
            acc.violate(prop, "roundtrip", format!("scale case '{}' [{} {}]: deserialisation consumed {off} of {} bytes and left {rest} (3 trailing bytes were appended)", c.name, cfg.variant.name(), cfg.kind.name(), bytes.len()), origin.clone());
            return;
        }
        if !r.same(&b.auto) {
            acc.violate(prop, "roundtrip", format!("scale case '{}' [{} {}]: restored automaton != original", c.name, cfg.variant.name(), cfg.kind.name()), origin.clone());
            return;
        }
        if r.serialize() != bytes {
            acc.violate(prop, "roundtrip", format!("scale case '{}' [{} {}]: the restored automaton serialises to different bytes", c.name, cfg.variant.name(), cfg.kind.name()), origin.clone());
            return;
        }
        // the restored automaton searches like the original on the case's haystacks
        for hay in &c.hays {
            for &m in Method::for_kind(cfg.kind) {
                util::tick_progress();
                acc.traces += 1;
                if b.auto.run(m, hay) != r.run(m, hay) {
                    acc.violate(prop, "roundtrip", format!("{} differs between the original and the restored automaton on the scale case '{}' [{} {}] (haystack of {} bytes)", m.name(), c.name, cfg.variant.name(), cfg.kind.name(), hay.len()), origin.clone());
                    break;
                }
            }
        }
    });
    acc.merge(a);
    bounds.push(format!("scale round trips: the {} scale collections x both variants x 3 kinds: equality, byte identity, consumed length with 3 trailing bytes, original vs restored on the case's haystacks", cs.len()));
}

//! E7 — the leftmost iterators, for all haystacks of one automaton.
//!
//! One `next()` call of the leftmost iterator is a scan from its resume offset that returns the
//! first match. Its memory is (automaton state, pending candidate, distance to the candidate's end).
//! This engine explores the product of that configuration graph — stepped with the crate's own
//! leftmost transition function and the stored output records — with a *reference machine* that
//! implements the definition of leftmost-longest / leftmost-first search directly on the pattern
//! list, for every label. In every reachable pair
//!   (a) if the text ended here, both must answer the same match (value, start, end);
//!   (b) if the iterator returns before the end of the text, the reference must be *decided* on the
//!       same match (no live partial occurrence could still beat it).
//! A completed exploration proves that the first match is right for every text, hence — each call
//! being a fresh scan from the previous end — every sequence of matches. Every pair is also run
//! through the real public iterator on its access text (conformance of the iterator model).
//!
//! The reference machine is validated against the brute-force oracle on every case of the E2 sweeps
//! of C03/C04 (`ref_scan` below), so its use here is not circular.

use crate::auto::{Kind, Method, Variant, M};
use crate::e2::{self, Built};
use crate::oracle::{self, RefAc, NONE};
use crate::util::{self, hex, Acc};
use serde_json::{json, Value};
use std::collections::HashMap;

/// Reference machine: textbook automaton over *all* patterns + the best occurrence so far.
pub struct LmRef {
    pub ac: RefAc,
    pub kind: Kind,
    pub plen: Vec<usize>,
    /// a pattern end strictly below the node exists
    has_below: Vec<bool>,
    /// smallest pattern index strictly below the node
    min_below: Vec<usize>,
}

#[derive(Clone, Copy, Debug, PartialEq, Eq, Hash)]
pub struct Cand {
    pub idx: usize,
    /// bytes between the candidate's start / end and the current position
    pub start_age: usize,
    pub end_age: usize,
}

#[derive(Clone, Copy, Debug, PartialEq, Eq, Hash)]
pub struct RefState {
    pub node: usize,
    pub cand: Option<Cand>,
    /// bytes scanned so far, saturating (only needed to bound ages)
    pub decided: bool,
}

impl LmRef {
    pub fn new(kind: Kind, pats: &[Vec<u8>], is_char: bool) -> LmRef {
        let ac = if is_char {
            RefAc::from_chars(pats)
        } else {
            RefAc::from_bytes(pats)
        };
        let n = ac.nodes.len();
        let mut has_below = vec![false; n];
        let mut min_below = vec![usize::MAX; n];
        // children have larger indices than parents (insertion order): sweep backwards
        for v in (1..n).rev() {
            let p = ac.nodes[v].parent;
            let own = ac.nodes[v].term;
            let hb = has_below[v] || own.is_some();
            let mb = min_below[v].min(own.unwrap_or(usize::MAX));
            if hb {
                has_below[p] = true;
            }
            if mb < min_below[p] {
                min_below[p] = mb;
            }
        }
        LmRef {
            ac,
            kind,
            plen: pats.iter().map(Vec::len).collect(),
            has_below,
            min_below,
        }
    }

    pub fn start(&self) -> RefState {
        RefState {
            node: 0,
            cand: None,
            decided: false,
        }
    }

    fn beats(&self, blen: usize, idx: usize, cand: &Option<Cand>) -> bool {
        match cand {
            None => true,
            Some(c) => {
                blen > c.start_age
                    || (blen == c.start_age
                        && match self.kind {
                            Kind::LL => true, // same start, ends later: longer
                            Kind::LF => idx < c.idx,
                            Kind::Std => false,
                        })
            }
        }
    }

    /// Could a partial occurrence at `v` still beat the candidate?
    fn relevant(&self, v: usize, cand: &Option<Cand>) -> bool {
        if v == 0 || !self.has_below[v] {
            return false;
        }
        match cand {
            None => true,
            Some(c) => {
                let bl = self.ac.nodes[v].blen;
                bl > c.start_age
                    || (bl == c.start_age
                        && match self.kind {
                            Kind::LL => true,
                            Kind::LF => self.min_below[v] < c.idx,
                            Kind::Std => false,
                        })
            }
        }
    }

    /// One label of width `w` bytes.
    pub fn step(&self, s: &RefState, c: u32, w: usize) -> RefState {
        let mut cand = s.cand.map(|k| Cand {
            idx: k.idx,
            start_age: k.start_age + w,
            end_age: k.end_age + w,
        });
        if s.decided {
            return RefState {
                node: 0,
                cand,
                decided: true,
            };
        }
        let node = self.ac.delta(s.node, c);
        // occurrences ending here: terminals on the fail chain, longest first
        let mut v = if self.ac.nodes[node].term.is_some() {
            node
        } else {
            self.ac.nodes[node].out_link
        };
        while v != NONE {
            let idx = self.ac.nodes[v].term.unwrap();
            let bl = self.ac.nodes[v].blen;
            if self.beats(bl, idx, &cand) {
                cand = Some(Cand {
                    idx,
                    start_age: bl,
                    end_age: 0,
                });
            }
            v = self.ac.nodes[v].out_link;
        }
        // decided: a candidate exists and no live partial occurrence can still beat it
        let mut decided = false;
        if cand.is_some() {
            decided = true;
            let mut u = node;
            loop {
                if self.relevant(u, &cand) {
                    decided = false;
                    break;
                }
                if u == 0 {
                    break;
                }
                u = self.ac.nodes[u].fail;
            }
        }
        RefState {
            node: if decided { 0 } else { node },
            cand,
            decided,
        }
    }

    /// The whole search by the reference machine (used to validate it against brute force).
    pub fn ref_scan(&self, hay: &[(u32, usize)]) -> Vec<(usize, usize, usize)> {
        let mut out = Vec::new();
        let mut from = 0usize; // label index
        let mut off = 0usize; // byte offset of `from`
        while from < hay.len() {
            let mut s = self.start();
            let mut pos = off;
            let mut found: Option<(usize, usize, usize)> = None;
            for &(c, w) in &hay[from..] {
                s = self.step(&s, c, w);
                pos += w;
                if s.decided {
                    break;
                }
            }
            if let Some(c) = s.cand {
                found = Some((pos - c.start_age, pos - c.end_age, c.idx));
            }
            match found {
                None => break,
                Some(m) => {
                    out.push(m);
                    // resume at the end of the match
                    let mut o = off;
                    let mut i = from;
                    while o < m.1 {
                        o += hay[i].1;
                        i += 1;
                    }
                    from = i;
                    off = o;
                }
            }
        }
        out
    }
}

#[derive(Clone, Copy, Debug, PartialEq, Eq, Hash)]
struct RealCfg {
    state: u32,
    /// output position (as stored, 1-based) of the pending candidate, 0 = none
    cand: u32,
    end_age: u32,
}

/// Explores one leftmost automaton. Returns true when the exploration completed without a
/// (confirmed) difference.
pub fn check_leftmost(prop: &str, b: &Built, pats: &[Vec<u8>], origin: &Value, acc: &mut Acc) -> bool {
    let is_char = b.cfg.variant == Variant::Char;
    let kind = b.cfg.kind;
    assert!(kind != Kind::Std);
    let raw = b.auto.raw();
    let len = raw.states.len();
    let rf = LmRef::new(kind, pats, is_char);
    let (mapped, unmapped) = crate::e1::label_set(&raw, is_char);
    // every label of the automaton; labels outside the patterns all behave alike for the reference
    // (no edge anywhere), so the unmapped representatives suffice
    let mut labels: Vec<(u32, usize)> = Vec::new();
    for &c in mapped.iter().chain(unmapped.iter()) {
        let w = if is_char { char::from_u32(c).unwrap().len_utf8() } else { 1 };
        labels.push((c, w));
    }
    let maxlen = pats.iter().map(Vec::len).max().unwrap_or(1);
    let age_cap = 2 * maxlen + 8;
    let mut seen: HashMap<(RealCfg, RefState), u32> = HashMap::new();
    // (pair, parent index, label)
    let mut order: Vec<(RealCfg, RefState, u32, u32)> = Vec::new();
    let c0 = RealCfg { state: 0, cand: 0, end_age: 0 };
    let r0 = rf.start();
    seen.insert((c0, r0), 0);
    order.push((c0, r0, u32::MAX, 0));
    let path_of = |order: &Vec<(RealCfg, RefState, u32, u32)>, mut i: usize, last: Option<u32>| -> Vec<u8> {
        let mut p = Vec::new();
        while order[i].2 != u32::MAX {
            p.push(order[i].3);
            i = order[i].2 as usize;
        }
        p.reverse();
        if let Some(l) = last {
            p.push(l);
        }
        let mut bytes = Vec::new();
        for l in p {
            oracle::encode_label(is_char, l, &mut bytes);
        }
        bytes
    };
    let out_rec = |opos: u32| -> Option<(u32, u32)> {
        raw.outputs.get(opos as usize - 1).map(|o| (o.value, o.length))
    };
    let mut qi = 0usize;
    let mut complete = true;
    let mut confirmed = 0;
    let slot = util::my_slot();
    // a difference is only an alarm when the public iterator shows it on a concrete haystack
    let mut differ = |what: String, text: Vec<u8>, acc: &mut Acc| -> bool {
        // tails: nothing, every short label, to let the iterator flush
        let mut tails: Vec<Vec<u8>> = vec![vec![]];
        for &(c, _) in labels.iter().take(40) {
            let mut t = Vec::new();
            oracle::encode_label(is_char, c, &mut t);
            tails.push(t);
        }
        for t in tails {
            let mut hay = text.clone();
            hay.extend_from_slice(&t);
            let occ = oracle::occurrences(pats, &hay);
            if let Err((e, g, note)) = e2::judge(b, pats, &occ, &hay, Method::Lm) {
                e2::report_mismatch(prop, "enum", b, pats, &hay, Method::Lm, &e, &g, &format!("{note} [leftmost product exploration: {what}]"), acc);
                return true;
            }
        }
        acc.count("unconfirmed_leftmost_differences", 1);
        if acc.notes.len() < 5 {
            acc.notes.push(format!("leftmost product exploration found a difference that no search through the public API showed: {what}"));
        }
        false
    };
    while qi < order.len() {
        let (cfg, rs, _, _) = order[qi];
        acc.states += 1;
        // (a) end of text here: both answer the same match
        let real_ans: Option<(u32, u32, usize, usize)> = if cfg.cand != 0 {
            match out_rec(cfg.cand) {
                Some((v, l)) => Some((v, l, cfg.end_age as usize + l as usize, cfg.end_age as usize)),
                None => {
                    acc.violate("C07", "table", format!("output position {} of a pending leftmost candidate lies outside the output table", cfg.cand),
                        e2::with(origin.clone(), "haystack", json!(hex(&path_of(&order, qi, None)))));
                    return false;
                }
            }
        } else {
            None
        };
        let ref_ans: Option<(u32, u32, usize, usize)> = rs.cand.map(|c| (b.vals[c.idx], rf.plen[c.idx] as u32, c.start_age, c.end_age));
        if real_ans != ref_ans {
            let text = path_of(&order, qi, None);
            complete = false;
            if differ(format!("at the end of the text {:?} the iterator holds (value,len,start_age,end_age) {:?}, the definition gives {:?}", e2::show(&text), real_ans, ref_ans), text, acc) {
                confirmed += 1;
            }
            break;
        }
        // conformance of the iterator model: the real public iterator on the access text
        if qi < 200_000 {
            let text = path_of(&order, qi, None);
            util::set_hay(&slot, &text);
            let got: Option<M> = util::in_lib(|| first_match(b, &text));
            acc.traces += 1;
            let exp: Option<M> = real_ans.map(|(v, _l, sa, ea)| (text.len() - sa, text.len() - ea, u64::from(v)));
            if got != exp {
                complete = false;
                if differ(format!("the public iterator returns {:?} on {:?}, the configuration reached by stepping the transition function predicts {:?}", got, e2::show(&text), exp), text, acc) {
                    confirmed += 1;
                }
                break;
            }
        }
        for &(c, w) in &labels {
            acc.transitions += 1;
            if cfg.state as usize >= len {
                return false;
            }
            let ns = b.auto.next(cfg.state, c, true);
            acc.traces += 1;
            let rs2 = rf.step(&rs, c, w);
            if ns == 0 {
                if cfg.cand != 0 {
                    // (b) early return: the reference must be decided on the same match
                    let (v, l) = out_rec(cfg.cand).unwrap();
                    let real_ret = (v, l, cfg.end_age as usize + w + l as usize, cfg.end_age as usize + w);
                    let ref_ret = rs2.cand.map(|k| (b.vals[k.idx], rf.plen[k.idx] as u32, k.start_age, k.end_age));
                    if !(rs2.decided && ref_ret == Some(real_ret)) {
                        let text = path_of(&order, qi, Some(c));
                        complete = false;
                        if differ(format!("after {:?} the iterator returns (value,len,start_age,end_age) {:?} but the definition is {} on {:?}", e2::show(&text), real_ret, if rs2.decided { "decided" } else { "not yet decided" }, ref_ret), text, acc) {
                            confirmed += 1;
                        }
                        break;
                    }
                    continue; // the call ends here
                }
                let cfg2 = RealCfg { state: 0, cand: 0, end_age: 0 };
                let key = (cfg2, rs2);
                if !seen.contains_key(&key) {
                    seen.insert(key, order.len() as u32);
                    order.push((cfg2, rs2, qi as u32, c));
                }
                continue;
            }
            let opos = raw.states[ns as usize].output_pos;
            let cfg2 = if opos != 0 {
                RealCfg { state: ns, cand: opos, end_age: 0 }
            } else {
                RealCfg { state: ns, cand: cfg.cand, end_age: if cfg.cand != 0 { cfg.end_age + w as u32 } else { 0 } }
            };
            if cfg2.end_age as usize > age_cap || rs2.cand.map_or(false, |k| k.end_age > age_cap) {
                acc.count("leftmost_age_cap_hits", 1);
                complete = false;
                continue;
            }
            let key = (cfg2, rs2);
            if !seen.contains_key(&key) {
                seen.insert(key, order.len() as u32);
                order.push((cfg2, rs2, qi as u32, c));
            }
        }
        if !complete || util::stopped() {
            break;
        }
        if order.len() > 3_000_000 {
            acc.count("leftmost_pair_cap_hits", 1);
            complete = false;
            break;
        }
        qi += 1;
        if qi % 256 == 0 {
            util::tick_progress();
        }
    }
    acc.count("leftmost_automata_explored", 1);
    if complete {
        acc.count("leftmost_automata_proved_for_all_haystacks", 1);
    }
    let _ = confirmed;
    complete
}

/// The first match of the real public leftmost iterator.
fn first_match(b: &Built, text: &[u8]) -> Option<M> {
    b.auto.iter(Method::Lm, text).next()
}

/// The reference machine's answer for a whole haystack, as (start, end, value).
pub fn ref_matches(kind: Kind, pats: &[Vec<u8>], vals: &[u32], is_char: bool, hay: &[u8]) -> Vec<M> {
    let rf = LmRef::new(kind, pats, is_char);
    let lab = oracle::labels_of(is_char, hay);
    rf.ref_scan(&lab)
        .into_iter()
        .map(|(s, e, i)| (s, e, u64::from(vals[i])))
        .collect()
}

//! E3 — transition cover of the public iterators; E4 — product exploration of two real automata.

use crate::auto::{Auto, Kind, Method, Variant, M};
use crate::e1::{self, Explored, Interp};
use crate::e2::{self, Built};
use crate::oracle;
use crate::util::{self, hex, Acc};
use serde_json::{json, Value};
use std::collections::HashMap;

/// Representative labels of an automaton: labels of the patterns (at most `cap`, evenly spread),
/// 0x00/0x01/0xff (vacant-slot defaults, maximum label), and one absent label.
pub fn rep_labels(ex: &Explored, is_char: bool, cap: usize) -> Vec<u32> {
    let mut set = std::collections::BTreeSet::new();
    for n in &ex.refac.nodes {
        for &c in n.edges.keys() {
            set.insert(c);
        }
    }
    let all: Vec<u32> = set.iter().copied().collect();
    let mut v: Vec<u32> = if all.len() <= cap {
        all.clone()
    } else {
        (0..cap).map(|i| all[i * all.len() / cap]).collect()
    };
    let extra: &[u32] = if is_char {
        &[0x0, 0x1, 0x7a, 0xe9, 0x4e16, 0x10ffff]
    } else {
        &[0x00, 0x01, 0xff, 0x7a]
    };
    for &e in extra {
        if !v.contains(&e) {
            v.push(e);
        }
    }
    // one label that is certainly absent
    let absent = (0x21..0x7f).find(|c| !set.contains(c));
    if let Some(a) = absent {
        if !v.contains(&a) {
            v.push(a);
        }
    }
    v
}

/// E3: for every node w of the reference trie and every representative label c (and d), run the
/// haystack w.c(.d) through the real iterators and compare with the oracle.
pub fn cover(
    prop: &str,
    b: &Built,
    pats: &[Vec<u8>],
    ex: &Explored,
    methods: &[Method],
    depth2: bool,
    acc: &mut Acc,
) {
    let is_char = b.cfg.variant == Variant::Char;
    let labels = rep_labels(ex, is_char, 12);
    let rpats: Vec<&Vec<u8>> = ex.rep.iter().map(|&i| &pats[i]).collect();
    let plen: Vec<usize> = rpats.iter().map(|p| p.len()).collect();
    let rvals: Vec<u32> = ex.rep.iter().map(|&i| b.vals[i]).collect();
    let slot = util::my_slot();
    let leftmost = b.cfg.kind != Kind::Std;
    // tails that flush a pending leftmost candidate
    let big = ex.refac.nodes.len() > 2000;
    let tails: Vec<Vec<u32>> = if leftmost || depth2 {
        let mut t = vec![vec![]];
        let n1 = if big && !depth2 { 4 } else if big { 8 } else { labels.len() };
        for &d in labels.iter().rev().take(n1) {
            t.push(vec![d]);
        }
        if leftmost && depth2 && !big {
            for &d in labels.iter().take(6) {
                for &e in labels.iter().take(6) {
                    t.push(vec![d, e]);
                }
            }
        }
        t
    } else {
        vec![vec![]]
    };
    let short_tails: Vec<Vec<u32>> = tails.iter().take(3).cloned().collect();
    let mut hay = Vec::new();
    let mut lab: Vec<(u32, usize)> = Vec::new();
    // deeply nested families list O(depth^2) occurrences per haystack: cover their shallow part only
    let max_out = (0..ex.refac.nodes.len())
        .map(|n| ex.refac.outputs(n).len())
        .max()
        .unwrap_or(0);
    let depth_cap = if max_out > 32 { 40 } else { usize::MAX };
    if depth_cap != usize::MAX {
        acc.count("E3_depth_capped_automata", 1);
    }
    for node in 0..ex.refac.nodes.len() {
        if ex.refac.nodes[node].depth > depth_cap {
            continue;
        }
        let w = ex.refac.string(node);
        util::tick_progress();
        // deep nodes of long chains: fewer tails (cost is quadratic in the depth)
        let tl = if w.len() > 64 { &short_tails } else { &tails };
        for &c in &labels {
            for t in tl {
                hay.clear();
                lab.clear();
                for &l in w.iter().chain(std::iter::once(&c)).chain(t.iter()) {
                    let before = hay.len();
                    oracle::encode_label(is_char, l, &mut hay);
                    lab.push((l, hay.len() - before));
                }
                util::set_hay(&slot, &hay);
                let occ = ex.refac.occurrences(&lab, &plen);
                acc.evals += 1;
                if e2::nontrivial(prop, &occ) {
                    acc.nontrivial += 1;
                }
                for &m in methods {
                    let exp = oracle::with_values(&e2::expected_occ(m, b.cfg.kind, &occ), &rvals);
                    let got = b.auto.run(m, &hay);
                    acc.traces += 1;
                    if got != exp {
                        // confirm against the brute-force oracle before raising the alarm
                        let bocc = oracle::occurrences(pats, &hay);
                        match e2::judge(b, pats, &bocc, &hay, m) {
                            Err((e, g, note)) => e2::report_mismatch(
                                prop, "enum", b, pats, &hay, m, &e, &g,
                                &format!("{note} [transition cover w.c.t]"), acc,
                            ),
                            Ok(_) => {
                                acc.violate(
                                    prop,
                                    "cover",
                                    "MACHINERY: reference automaton and brute-force oracle disagree".into(),
                                    json!({"haystack": hex(&hay)}),
                                );
                            }
                        }
                        return;
                    }
                }
            }
        }
        if util::stopped() {
            return;
        }
    }
}

// ------------------------------------------------------------------------------------------------
// E4

pub struct Side<'a> {
    pub auto: &'a Auto,
    pub raw: daachorse::verif::RawAutomaton<u32>,
    pub leftmost: bool,
}

impl<'a> Side<'a> {
    pub fn new(auto: &'a Auto, kind: Kind) -> Self {
        Side {
            auto,
            raw: auto.raw(),
            leftmost: kind != Kind::Std,
        }
    }
    fn is_char(&self) -> bool {
        self.auto.variant() == Variant::Char
    }
    /// One step on a label. For a byte-wise automaton driven at character granularity the label is
    /// a code point and the step runs over its UTF-8 bytes; intermediate states must not report.
    /// Every step is first taken on the bounds-checked interpreter, then on the real function.
    fn step(&self, s: u32, label: u32, char_gran: bool) -> Result<u32, String> {
        let it = Interp {
            raw: &self.raw,
            is_char: self.is_char(),
        };
        if self.is_char() || !char_gran {
            let (n, _) = it
                .next(s, it.code(label), self.leftmost)
                .map_err(|f| format!("{f:?}"))?;
            let real = self.auto.next(s, label, self.leftmost);
            if real != n {
                return Err(format!("interpreter/real mismatch at {s} on {label:#x}"));
            }
            Ok(n)
        } else {
            let mut buf = [0u8; 4];
            let bytes = char::from_u32(label).unwrap().encode_utf8(&mut buf).as_bytes().to_vec();
            let mut cur = s;
            for (i, &bt) in bytes.iter().enumerate() {
                let (n, _) = it
                    .next(cur, Some(u32::from(bt)), self.leftmost)
                    .map_err(|f| format!("{f:?}"))?;
                let real = self.auto.next(cur, u32::from(bt), self.leftmost);
                if real != n {
                    return Err(format!("interpreter/real mismatch at {cur} on byte {bt:#x}"));
                }
                cur = n;
                if i + 1 < bytes.len() && self.raw.states[cur as usize].output_pos != 0 {
                    return Err(format!("MIDCHAR output at byte state {cur}"));
                }
            }
            Ok(cur)
        }
    }
    fn obs(&self, s: u32) -> Result<(bool, Vec<(u32, u32)>), String> {
        let it = Interp {
            raw: &self.raw,
            is_char: self.is_char(),
        };
        let chain = it.chain(s, false).map_err(|f| format!("{f:?}"))?;
        Ok((s == 0, chain))
    }
}

pub struct BisimResult {
    pub pairs: u64,
    pub transitions: u64,
    /// first difference: (path labels, description)
    pub diff: Option<(Vec<u32>, String)>,
}

/// BFS over pairs of states of two automata on the given labels.
pub fn bisim(a: &Side, b: &Side, labels: &[u32], char_gran: bool) -> BisimResult {
    let mut seen: HashMap<(u32, u32), u32> = HashMap::new();
    let mut order: Vec<(u32, u32, u32, u32)> = vec![(0, 0, u32::MAX, 0)]; // (sa, sb, parent idx, label)
    seen.insert((0, 0), 0);
    let mut map_a: HashMap<u32, u32> = HashMap::new();
    map_a.insert(0, 0);
    let mut qi = 0usize;
    let mut transitions = 0u64;
    let path_of = |order: &Vec<(u32, u32, u32, u32)>, mut i: usize, last: Option<u32>| {
        let mut p = Vec::new();
        while order[i].2 != u32::MAX {
            p.push(order[i].3);
            i = order[i].2 as usize;
        }
        p.reverse();
        if let Some(l) = last {
            p.push(l);
        }
        p
    };
    while qi < order.len() {
        let (sa, sb, _, _) = order[qi];
        if qi % 64 == 0 {
            util::tick_progress();
        }
        // observation
        match (a.obs(sa), b.obs(sb)) {
            (Ok((ra, ca)), Ok((rb, cb))) => {
                let same = if a.leftmost {
                    ra == rb && ca.first() == cb.first()
                } else {
                    ca == cb
                };
                if !same {
                    return BisimResult {
                        pairs: order.len() as u64,
                        transitions,
                        diff: Some((
                            path_of(&order, qi, None),
                            format!("related states observe differently: root={ra}/{rb} outputs={ca:?}/{cb:?}"),
                        )),
                    };
                }
            }
            (Err(e), _) | (_, Err(e)) => {
                return BisimResult {
                    pairs: order.len() as u64,
                    transitions,
                    diff: Some((path_of(&order, qi, None), format!("FAULT {e}"))),
                };
            }
        }
        for &l in labels {
            transitions += 1;
            let na = a.step(sa, l, char_gran);
            let nb = b.step(sb, l, char_gran);
            match (na, nb) {
                (Ok(na), Ok(nb)) => {
                    if !seen.contains_key(&(na, nb)) {
                        // functional relation: a state of A is related to one state of B
                        if let Some(&prev) = map_a.get(&na) {
                            if prev != nb && !a.leftmost {
                                // standard automata are deterministic in the text suffix: one partner
                                return BisimResult {
                                    pairs: order.len() as u64,
                                    transitions,
                                    diff: Some((
                                        path_of(&order, qi, Some(l)),
                                        format!("state {na} of the first automaton is related to two states ({prev}, {nb}) of the second"),
                                    )),
                                };
                            }
                        }
                        map_a.insert(na, nb);
                        seen.insert((na, nb), order.len() as u32);
                        order.push((na, nb, qi as u32, l));
                    }
                }
                (Err(e), _) | (_, Err(e)) => {
                    return BisimResult {
                        pairs: order.len() as u64,
                        transitions,
                        diff: Some((path_of(&order, qi, Some(l)), format!("FAULT {e}"))),
                    };
                }
            }
        }
        qi += 1;
    }
    BisimResult {
        pairs: order.len() as u64,
        transitions,
        diff: None,
    }
}

/// Runs all search methods of `kind` on both automata; returns the first differing method.
pub fn differ(
    a: &Auto,
    b: &Auto,
    kind: Kind,
    hay: &[u8],
) -> Option<(Method, Vec<M>, Vec<M>)> {
    for &m in Method::for_kind(kind) {
        let ra = a.run(m, hay);
        let rb = b.run(m, hay);
        if ra != rb {
            return Some((m, ra, rb));
        }
    }
    None
}

/// Confirms a bisimulation difference through the public API: path + short tails.
pub fn confirm_diff(
    a: &Auto,
    b: &Auto,
    kind: Kind,
    path: &[u32],
    labels: &[u32],
    as_chars: bool,
) -> Option<(Vec<u8>, Method, Vec<M>, Vec<M>)> {
    let mut tails: Vec<Vec<u32>> = vec![vec![]];
    for &l in labels.iter().take(24) {
        tails.push(vec![l]);
    }
    for &l in labels.iter().take(10) {
        for &k in labels.iter().take(10) {
            tails.push(vec![l, k]);
        }
    }
    for t in tails {
        let mut hay = Vec::new();
        for &l in path.iter().chain(t.iter()) {
            oracle::encode_label(as_chars, l, &mut hay);
        }
        if let Some((m, ra, rb)) = differ(a, b, kind, &hay) {
            return Some((hay, m, ra, rb));
        }
    }
    None
}

pub fn diff_case(origin: &Value, hay: &[u8], m: Method, ra: &[M], rb: &[M]) -> Value {
    let mut c = origin.clone();
    let o = c.as_object_mut().unwrap();
    o.insert("haystack".into(), json!(hex(hay)));
    o.insert("method".into(), json!(m.name()));
    o.insert("first".into(), e2::ms_json(ra));
    o.insert("second".into(), e2::ms_json(rb));
    c
}

pub fn _unused(_: &e1::Want) {}

//! Per-property compositions of the engines.

use crate::auto::{Auto, Cfg, Entry, Kind, Method, Variant};
use crate::e1;
use crate::e2::{self, Scope};
use crate::e34;
use crate::enumr::{self, Order};
use crate::families;
use crate::pop::{self, for_population};
use crate::util::{self, Acc, EvidenceSpec};
use serde_json::json;

pub fn tier_is_thorough(tier: &str) -> bool {
    tier == "thorough"
}

fn search_cfgs(kind: Kind, variant: Variant) -> Vec<Cfg> {
    e2::cfgs_for(variant, kind, &[Some(1), None], true)
}

/// E2 part shared by C01-C05: one kind, the property's methods, both variants.
pub fn e2_search(prop: &str, kind: Kind, methods: &[Method], tier: &str, acc: &mut Acc, bounds: &mut Vec<String>) {
    if std::env::var("VERIF_SKIP_E2").is_ok() {
        // debugging aid: lets the table-level engines be exercised alone against a seeded change
        bounds.push("E2 skipped (VERIF_SKIP_E2 set) - NOT a complete run".into());
        return;
    }
    let thorough = tier_is_thorough(tier);
    let bembs = enumr::byte_embeddings(util::seed());
    let cembs = enumr::char_embeddings();
    let m = methods.to_vec();
    let mo = move |_k: Kind| m.clone();
    let leftmost = kind != Kind::Std;
    let order = if kind == Kind::LF { Order::AllOrders } else { Order::SetsBothWays };
    // (scope, byte embeddings, char embeddings)
    let mut plan: Vec<(Scope, Vec<usize>, Vec<usize>)> = Vec::new();
    if !thorough {
        if leftmost {
            plan.push((Scope::new(2, 4, 3, order, if kind == Kind::LF { 6 } else { 7 }, 1), vec![0, 1], vec![0]));
            // pattern length 5 and 6: deep leftmost fail chains need it
            plan.push((Scope::new(2, 5, 3, Order::SetsBothWays, 7, 0), vec![0], vec![1]));
            plan.push((Scope::new(2, 6, 2, Order::AllOrders, 8, 0), vec![1], vec![]));
            plan.push((Scope::new(3, 3, 3, Order::Sets, 6, 0), vec![2], vec![3]));
            plan.push((Scope::new(3, 2, 3, order, 5, 1), vec![2], vec![3, 4]));
        } else {
            plan.push((Scope::new(2, 4, 3, order, 7, 1), vec![0, 1, 2], vec![0]));
            plan.push((Scope::new(2, 5, 3, Order::Sets, 7, 0), vec![1], vec![1]));
            plan.push((Scope::new(3, 3, 3, Order::Sets, 6, 0), vec![0], vec![3]));
            plan.push((Scope::new(3, 2, 3, order, 5, 1), vec![3], vec![1, 2, 3, 4]));
        }
    } else {
        let o2 = if leftmost { Order::AllOrders } else { order };
        plan.push((Scope::new(2, 4, 3, o2, 8, 1), (0..bembs.len()).collect(), vec![0, 1, 2]));
        plan.push((Scope::new(3, 3, 3, order, 7, 1), vec![0, 1, 2], vec![0, 3, 4]));
        plan.push((Scope::new(2, 5, 3, order, 9, 0), vec![0, 1], vec![0, 5]));
        plan.push((Scope::new(2, 6, 3, Order::Sets, 8, 0), vec![1], vec![1]));
        plan.push((Scope::new(2, 7, 2, Order::AllOrders, 9, 0), vec![0], vec![0]));
        plan.push((Scope::new(3, 2, 4, order, 6, 1), vec![1, 3], vec![1, 2, 4, 5]));
        plan.push((Scope::new(4, 2, 3, Order::Sets, 5, 0), vec![1], vec![0, 3]));
        if leftmost {
            plan.push((Scope::new(3, 4, 2, Order::AllOrders, 7, 1), vec![0, 1], vec![0]));
            plan.push((Scope::new(2, 4, 4, Order::Sets, 7, 0), vec![0], vec![]));
        }
    }
    for (scope, bi, ci) in plan {
        if util::stopped() {
            break;
        }
        let be: Vec<_> = bi.iter().filter_map(|&i| bembs.get(i).cloned()).collect();
        let ce: Vec<_> = ci.iter().filter_map(|&i| cembs.get(i).cloned()).collect();
        let bc = search_cfgs(kind, Variant::Byte);
        let a = e2::run_scope(&scope, &be, |ctx, acc| {
            e2::sweep_searches(prop, ctx, &bc, &mo, false, acc);
            if kind == Kind::LF && scope.maxlen <= 4 {
                e2::shadow_differential(prop, ctx, &[Variant::Byte], acc);
            }
        });
        acc.merge(a);
        let mut both = search_cfgs(kind, Variant::Char);
        both.push(Cfg::new(Variant::Byte, kind, None, Entry::Builder));
        let a = e2::run_scope(&scope, &ce, |ctx, acc| {
            e2::sweep_searches(prop, ctx, &both, &mo, false, acc);
            if kind == Kind::LF && scope.maxlen <= 4 {
                e2::shadow_differential(prop, ctx, &[Variant::Char], acc);
            }
        });
        acc.merge(a);
        bounds.push(format!(
            "E2 {} x byte[{}] char[{}]",
            scope.name(),
            be.iter().map(|e| e.name).collect::<Vec<_>>().join(","),
            ce.iter().map(|e| e.name).collect::<Vec<_>>().join(",")
        ));
    }
}

/// E1 (+E3) over the structured population for one kind.
pub fn pop_table(prop: &str, kinds: &[Kind], cover_methods: &[Method], tier: &str, acc: &mut Acc, bounds: &mut Vec<String>) {
    let level = if tier_is_thorough(tier) { 1 } else { 0 };
    let nfbs = families::nfb_values(level);
    let a = for_population(prop, level, kinds, &nfbs, |item, acc| {
        if let Some(ex) = e1::check_table(prop, &item.built, &item.fam.pats, &item.origin, acc) {
            let n = item.built.cfg.nfb;
            if (prop == "C03" || prop == "C04") && item.built.cfg.kind != Kind::Std && (n == Some(1) || n.is_none() || level >= 1 && n == Some(3)) {
                crate::lm::check_leftmost(prop, &item.built, &item.fam.pats, &item.origin, acc);
            }
            if !cover_methods.is_empty() && (n == Some(1) || n.is_none() || n == Some(3)) {
                let ms: Vec<Method> = cover_methods
                    .iter()
                    .copied()
                    .filter(|m| (*m == Method::Lm) == (item.built.cfg.kind != Kind::Std))
                    .collect();
                e34::cover(prop, &item.built, &item.fam.pats, &ex, &ms, level >= 1, acc);
                acc.count("automata_covered_E3", 1);
            }
        }
    });
    acc.merge(a);
    let lm_prop = (prop == "C03" || prop == "C04") && kinds.iter().all(|k| *k != Kind::Std);
    let std_prop = matches!(prop, "C01" | "C02" | "C05") && kinds == [Kind::Std];
    if lm_prop || std_prop {
        // fail-chain shapes: many small families with sparse suffix structure, default settings only
        let mut fams = if lm_prop { families::leftmost_shape_families(level, util::seed()) } else { Vec::new() };
        fams.extend(families::fail_chain_grid(if level >= 1 { 5 } else { 4 }));
        fams.extend(families::fail_chain_grid2(if level >= 1 { 5 } else { 4 }));
        fams.extend(families::wide_state_grid());
        let a = util::par_for(fams.len(), |fi, acc| {
            let fam = &fams[fi];
            for &kind in kinds {
                // leftmost-first depends on the registration order: sets of up to four patterns are
                // built in every order
                let orders: Vec<Vec<usize>> = if kind == Kind::LF && fam.pats.len() <= 4 {
                    crate::props3::permutations_pub(fam.pats.len())
                } else {
                    vec![(0..fam.pats.len()).collect()]
                };
                for o in &orders {
                    let pats: Vec<Vec<u8>> = o.iter().map(|&i| fam.pats[i].clone()).collect();
                    let cfg = Cfg::new(Variant::Byte, kind, None, Entry::Builder);
                    let origin = e2::case_json(&cfg, &pats, None);
                    util::set_case(prop, "table", origin.clone());
                    if let Some(b) = e2::build_or_violate(prop, "table", cfg, &pats, None, acc) {
                        if e1::check_table(prop, &b, &pats, &origin, acc).is_some() && kind != Kind::Std {
                            crate::lm::check_leftmost(prop, &b, &pats, &origin, acc);
                        }
                    }
                }
            }
        });
        acc.merge(a);
        bounds.push(format!("E1{} on {} fail-chain shape families: {}the complete fail-chain grids (template 1: 5 patterns / 8 letter roles; template 2: 4 patterns / 6 roles, all 24 orders under leftmost-first) over {} letters and the wide-state grid; default settings", if lm_prop { "+E7" } else { "" }, fams.len(), if lm_prop { "sparse mutant families (4-20 patterns of up to 7 bytes over 4-9 letters) and " } else { "" }, if level >= 1 { 5 } else { 4 }));
    }
    bounds.push(format!(
        "E1{} population level {} x kinds {:?} x nfb {:?}",
        if cover_methods.is_empty() { "" } else { "+E3" },
        level,
        kinds.iter().map(|k| k.name()).collect::<Vec<_>>(),
        nfbs.iter().map(|n| n.map_or("default".to_string(), |x| x.to_string())).collect::<Vec<_>>()
    ));
}

/// E1 (and E7 for the leftmost properties) on the dead-hop grid, both variants, every kind of
/// `kinds`, every registration order of sets of up to four patterns (reverse order beyond that).
pub fn dead_hop_tables(prop: &str, kinds: &[Kind], acc: &mut Acc, bounds: &mut Vec<String>) {
    let mut fams: Vec<(Variant, families::Family)> = Vec::new();
    for f in families::dead_hop_grid(false) {
        fams.push((Variant::Byte, f.clone()));
        fams.push((Variant::Char, f));
    }
    for f in families::dead_hop_grid(true) {
        fams.push((Variant::Char, f));
    }
    let lm_prop = prop == "C03" || prop == "C04";
    let a = util::par_for(fams.len(), |fi, acc| {
        let (variant, fam) = &fams[fi];
        for &kind in kinds {
            let n = fam.pats.len();
            let orders: Vec<Vec<usize>> = if kind == Kind::LF && n <= 4 {
                crate::props3::permutations_pub(n)
            } else if kind == Kind::LF {
                vec![(0..n).collect(), (0..n).rev().collect()]
            } else {
                vec![(0..n).collect()]
            };
            for o in &orders {
                let pats: Vec<Vec<u8>> = o.iter().map(|&i| fam.pats[i].clone()).collect();
                let cfg = Cfg::new(*variant, kind, None, Entry::Builder);
                let origin = e2::case_json(&cfg, &pats, None);
                util::set_case(prop, "table", origin.clone());
                if let Some(b) = e2::build_or_violate(prop, "table", cfg, &pats, None, acc) {
                    if e1::check_table(prop, &b, &pats, &origin, acc).is_some() && kind != Kind::Std && lm_prop {
                        crate::lm::check_leftmost(prop, &b, &pats, &origin, acc);
                    }
                }
            }
        }
    });
    acc.merge(a);
    bounds.push(format!("E1{} on the dead-hop grid ({} families: suffix chains of length 3-5 whose j-th hop is the first state with the dead fail link, ASCII and three-byte letters) x both variants x kinds {:?}", if lm_prop { "+E7" } else { "" }, fams.len(), kinds.iter().map(|k| k.name()).collect::<Vec<_>>()));
}

/// E1 (+E3) on every automaton of a small scope (ties the small scope to the table level too).
pub fn small_table(prop: &str, kinds: &[Kind], cover_methods: &[Method], tier: &str, acc: &mut Acc, bounds: &mut Vec<String>) {
    let thorough = tier_is_thorough(tier);
    let leftmost = kinds.iter().all(|k| *k != Kind::Std) && (prop == "C03" || prop == "C04");
    let scopes: Vec<Scope> = match (thorough, leftmost) {
        (false, false) => vec![Scope::new(2, 3, 3, Order::SetsBothWays, 0, 0)],
        // the leftmost product exploration (E7) wants deeper tries: pattern length 4 / 5
        (false, true) => vec![Scope::new(2, 4, 3, if prop == "C04" { Order::SetsBothWays } else { Order::Sets }, 0, 0)],
        (true, false) => vec![Scope::new(3, 3, 3, Order::SetsBothWays, 0, 0)],
        (true, true) => vec![Scope::new(3, 3, 3, Order::SetsBothWays, 0, 0), Scope::new(2, 5, 3, Order::Sets, 0, 0)],
    };
    let bembs = enumr::byte_embeddings(util::seed());
    let cembs = enumr::char_embeddings();
    for scope in &scopes {
    let bsel: Vec<enumr::Emb> = if scope.maxlen >= 4 { bembs.iter().take(2).cloned().collect() } else { bembs.clone() };
    let csel: Vec<enumr::Emb> = if scope.maxlen >= 4 { cembs.iter().take(2).cloned().collect() } else { cembs.clone() };
    for (variant, embs) in [(Variant::Byte, &bsel), (Variant::Char, &csel)] {
        let a = e2::run_scope(scope, embs, |ctx, acc| {
            for &kind in kinds {
                for nfb in [Some(1), None] {
                    let cfg = Cfg::new(variant, kind, nfb, Entry::Builder);
                    let origin = e2::case_json(&cfg, &ctx.pats, None);
                    util::set_case(prop, "table", origin.clone());
                    if let Some(b) = e2::build_or_violate(prop, "table", cfg, &ctx.pats, None, acc) {
                        if let Some(ex) = e1::check_table(prop, &b, &ctx.pats, &origin, acc) {
                            if (prop == "C03" || prop == "C04") && kind != Kind::Std {
                                crate::lm::check_leftmost(prop, &b, &ctx.pats, &origin, acc);
                            }
                            if !cover_methods.is_empty() && nfb.is_none() {
                                let ms: Vec<Method> = cover_methods.iter().copied()
                                    .filter(|m| (*m == Method::Lm) == (kind != Kind::Std)).collect();
                                e34::cover(prop, &b, &ctx.pats, &ex, &ms, thorough, acc);
                            }
                        }
                    }
                }
            }
        });
        acc.merge(a);
    }
    bounds.push(format!("E1{}{} every automaton of {} x {} byte + {} char embeddings x nfb {{1,default}}", if cover_methods.is_empty() { "" } else { "+E3" }, if leftmost { "+E7" } else { "" }, scope.name(), bsel.len(), csel.len()));
    }
}

/// Deeper small scopes at automaton level: E1 (and E7 for the leftmost kinds) decide each automaton
/// for *all* haystacks in well under a millisecond, so far more pattern sets can be covered this way
/// than with haystack enumeration: byte-wise, one embedding, default settings.
pub fn deep_small_scope(prop: &str, kinds: &[Kind], tier: &str, acc: &mut Acc, bounds: &mut Vec<String>) {
    let thorough = tier_is_thorough(tier);
    let lf = kinds.contains(&Kind::LF);
    let o = if lf { Order::SetsBothWays } else { Order::Sets };
    let scopes: Vec<Scope> = if thorough {
        vec![
            Scope::new(2, 5, 4, o, 0, 0),
            Scope::new(2, 6, 3, o, 0, 0),
            Scope::new(3, 4, 3, o, 0, 0),
            Scope::new(2, 4, 5, Order::Sets, 0, 0),
            Scope::new(3, 3, 4, Order::Sets, 0, 0),
        ]
    } else {
        vec![
            Scope::new(2, 5, 3, o, 0, 0),
            Scope::new(2, 4, 4, Order::Sets, 0, 0),
            Scope::new(2, 3, 6, Order::Sets, 0, 0),
        ]
    };
    let emb = vec![enumr::Emb::bytes("abc", b"abc")];
    for scope in &scopes {
        let a = e2::run_scope(scope, &emb, |ctx, acc| {
            for &kind in kinds {
                let cfg = Cfg::new(Variant::Byte, kind, None, Entry::Builder);
                let origin = e2::case_json(&cfg, &ctx.pats, None);
                util::set_case(prop, "table", origin.clone());
                if let Some(b) = e2::build_or_violate(prop, "table", cfg, &ctx.pats, None, acc) {
                    if e1::check_table(prop, &b, &ctx.pats, &origin, acc).is_some() && kind != Kind::Std {
                        crate::lm::check_leftmost(prop, &b, &ctx.pats, &origin, acc);
                    }
                }
            }
        });
        acc.merge(a);
        bounds.push(format!("E1{} (all haystacks per automaton) on every byte-wise automaton of {}", if kinds.iter().any(|k| *k != Kind::Std) { "+E7" } else { "" }, scope.name()));
        if util::stopped() {
            break;
        }
    }
}

pub struct Outcome {
    pub acc: Acc,
    pub spec_level: &'static str,
    pub rule: String,
    pub bounds: Vec<String>,
    pub assumptions: Vec<String>,
}

pub fn run_property(prop: &str, tier: &str) -> Option<Outcome> {
    let mut acc = Acc::new();
    let mut bounds = Vec::new();
    let (level, rule, assumptions): (&'static str, String, Vec<String>) = match prop {
        "C01" => {
            e2_search(prop, Kind::Std, &[Method::Ovl, Method::OvlIt], tier, &mut acc, &mut bounds);
            pop_table(prop, &[Kind::Std], &[Method::Ovl, Method::OvlIt], tier, &mut acc, &mut bounds);
            small_table(prop, &[Kind::Std], &[Method::Ovl, Method::OvlIt], tier, &mut acc, &mut bounds);
            deep_small_scope(prop, &[Kind::Std], tier, &mut acc, &mut bounds);
            crate::scale::scale_cases(prop, &[Kind::Std], &[Method::Ovl, Method::OvlIt], tier, &mut acc, &mut bounds);
            ("model_checking", "E2: every (pattern sequence, embedding, haystack) of the listed scopes; non-trivial = the oracle lists two matches that overlap or share an end".into(), vec![])
        }
        "C02" => {
            e2_search(prop, Kind::Std, &[Method::Find, Method::FindIt], tier, &mut acc, &mut bounds);
            pop_table(prop, &[Kind::Std], &[Method::Find, Method::FindIt], tier, &mut acc, &mut bounds);
            small_table(prop, &[Kind::Std], &[Method::Find, Method::FindIt], tier, &mut acc, &mut bounds);
            crate::scale::scale_cases(prop, &[Kind::Std], &[Method::Find, Method::FindIt], tier, &mut acc, &mut bounds);
            ("model_checking", "non-trivial = the non-overlapping answer is non-empty and differs from the no-suffix answer".into(), vec![])
        }
        "C03" => {
            e2_search(prop, Kind::LL, &[Method::Lm], tier, &mut acc, &mut bounds);
            pop_table(prop, &[Kind::LL], &[Method::Lm], tier, &mut acc, &mut bounds);
            small_table(prop, &[Kind::LL], &[Method::Lm], tier, &mut acc, &mut bounds);
            deep_small_scope(prop, &[Kind::LL], tier, &mut acc, &mut bounds);
            dead_hop_tables(prop, &[Kind::LL], &mut acc, &mut bounds);
            crate::scale::scale_cases(prop, &[Kind::LL], &[Method::Lm], tier, &mut acc, &mut bounds);
            ("model_checking", "states = pairs (iterator configuration, reference-machine state) of the leftmost product exploration + table states, transitions = pairs x labels; E2 cases: non-trivial = some occurrence is suppressed and leftmost-longest differs from leftmost-first".into(), vec!["the iterator model of E7 mirrors LestmostFindIterator::next; it is replayed on the public iterator for every explored pair".into()])
        }
        "C04" => {
            e2_search(prop, Kind::LF, &[Method::Lm], tier, &mut acc, &mut bounds);
            pop_table(prop, &[Kind::LF], &[Method::Lm], tier, &mut acc, &mut bounds);
            small_table(prop, &[Kind::LF], &[Method::Lm], tier, &mut acc, &mut bounds);
            deep_small_scope(prop, &[Kind::LF], tier, &mut acc, &mut bounds);
            dead_hop_tables(prop, &[Kind::LF], &mut acc, &mut bounds);
            crate::scale::scale_cases(prop, &[Kind::LF], &[Method::Lm], tier, &mut acc, &mut bounds);
            ("model_checking", "states = pairs (iterator configuration, reference-machine state) of the leftmost product exploration + table states, transitions = pairs x labels; E2 cases: non-trivial = some occurrence is suppressed and leftmost-first differs from leftmost-longest".into(), vec!["the iterator model of E7 mirrors LestmostFindIterator::next; it is replayed on the public iterator for every explored pair".into()])
        }
        "C05" => {
            e2_search(prop, Kind::Std, &[Method::NoSuf, Method::NoSufIt], tier, &mut acc, &mut bounds);
            pop_table(prop, &[Kind::Std], &[Method::NoSuf, Method::NoSufIt], tier, &mut acc, &mut bounds);
            small_table(prop, &[Kind::Std], &[Method::NoSuf, Method::NoSufIt], tier, &mut acc, &mut bounds);
            crate::scale::scale_cases(prop, &[Kind::Std], &[Method::NoSuf, Method::NoSufIt], tier, &mut acc, &mut bounds);
            ("model_checking", "non-trivial = the no-suffix answer is non-empty and differs from the non-overlapping answer".into(), vec![])
        }
        "C06" => {
            // values through the u32 engine: every method, every kind, bare and explicit values
            let thorough = tier_is_thorough(tier);
            let scope = if thorough { Scope::new(2, 4, 3, Order::SetsBothWays, 6, 1) } else { Scope::new(2, 3, 3, Order::SetsBothWays, 5, 1) };
            for (variant, embs) in [(Variant::Byte, enumr::byte_embeddings(util::seed())), (Variant::Char, enumr::char_embeddings())] {
                let a = e2::run_scope(&scope, &embs, |ctx, acc| {
                    let mut cfgs = Vec::new();
                    for kind in Kind::ALL {
                        cfgs.push(Cfg::new(variant, kind, None, Entry::Builder));
                    }
                    cfgs.push(Cfg::new(variant, Kind::Std, None, Entry::Assoc));
                    e2::sweep_searches(prop, ctx, &cfgs, &|k| Method::for_kind(k).to_vec(), true, acc);
                });
                acc.merge(a);
            }
            bounds.push(format!("E2 u32 values (bare + explicit) {} x all embeddings x 3 kinds x all methods", scope.name()));
            run_types("C06", tier, &mut acc, &mut bounds);
            {
                let mut ms = Method::STD.to_vec();
                ms.push(Method::Lm);
                crate::scale::scale_cases(prop, &Kind::ALL, &ms, tier, &mut acc, &mut bounds);
            }
            pop_table(prop, &Kind::ALL, &[], tier, &mut acc, &mut bounds);
            ("exploration", "every (pattern set, value assignment over {0,1,MAX}/{MIN,-1,0,MAX}, type, variant, kind, haystack); non-trivial = two patterns share a value (or a single pattern)".into(), vec![])
        }
        "C16" => {
            crate::e6::c16(tier, &mut acc, &mut bounds);
            ("exploration", "every invocation of the listed product; non-trivial = a printed line has two or more occurrences or a multi-byte character".into(),
             vec!["--color=auto is not covered (terminal dependent)".into()])
        }
        "C07" => {
            crate::props2::c07(tier, &mut acc, &mut bounds);
            // memory safety must not depend on the value type (zero-sized, 1..16 bytes, user-defined)
            run_types("C07", tier, &mut acc, &mut bounds);
            crate::props2::c07_shifty(tier, &mut acc, &mut bounds);
            ("model_checking", "closure: every reachable state x every label (+ fail links, output chains) of every automaton, built and deserialised; non-trivial E2 cases = haystacks with overlapping matches; decoder: scalar values >= U+0080".into(),
             vec!["std's unsafe-precondition checks (debug-assertions profile) are the UB oracle for executed paths".into()])
        }
        "C08" => {
            crate::props2::c08(tier, &mut acc, &mut bounds);
            ("model_checking", "states = pairs (char-wise state, byte-wise state) explored, transitions = pairs x labels; non-trivial pair = the patterns contain a multi-byte character".into(), vec![])
        }
        "C09" => {
            crate::props2::c09(tier, &mut acc, &mut bounds);
            run_types("C09", tier, &mut acc, &mut bounds);
            crate::scale::roundtrip(prop, tier, &mut acc, &mut bounds);
            ("model_checking", "every automaton of the population: round trip with 4 tails, image parsed independently, product exploration original vs restored; non-trivial = leftmost kind or char-wise variant".into(), vec![])
        }
        "C10" => {
            crate::props3::c10(tier, &mut acc, &mut bounds);
            crate::scale::validity(prop, tier, &mut acc, &mut bounds);
            ("exploration", "every pattern collection of the listed bounds x configuration; non-trivial = the collection is invalid (empty collection, empty pattern or repeat) or sits on an index-conversion boundary".into(), vec![])
        }
        "C12" => {
            crate::props3::c12(tier, &mut acc, &mut bounds);
            ("exploration", "every (pattern set, embedding, haystack) x 3 byte-iterator methods with the pull count checked after every next(); non-trivial = some match ends before the end of the haystack".into(), vec![])
        }
        "C14" => {
            crate::props3::c14(tier, &mut acc, &mut bounds);
            crate::props::run_sched(tier, &mut acc, &mut bounds);
            ("model_checking", "evaluations = builds compared (all n! orders) + merge experiments; states/transitions = schedules / scheduling steps explored by shuttle's exhaustive DFS".into(),
             vec!["cooperative scheduler: unsynchronised writes would be invisible to it; they are ruled out by the image-unchanged oracle and the Sync+Send compile-time probe".into()])
        }
        "C11" => {
            crate::props2::c11(tier, &mut acc, &mut bounds);
            ("model_checking", "states = pairs (state of nfb=k build, state of default build), transitions = pairs x all labels; non-trivial = the k-build evicted at least one block (blocks > k)".into(), vec![])
        }
        "C13" => {
            pop_table(prop, &Kind::ALL, &[], tier, &mut acc, &mut bounds);
            small_table(prop, &Kind::ALL, &[], tier, &mut acc, &mut bounds);
            dead_hop_tables(prop, &Kind::ALL, &mut acc, &mut bounds);
            ("model_checking", "E1 ranking: every reachable state x every label of every automaton; non-trivial E2 cases = haystacks with overlapping matches".into(), vec![])
        }
        "C15" => {
            pop_table(prop, &Kind::ALL, &[], tier, &mut acc, &mut bounds);
            small_table(prop, &Kind::ALL, &[], tier, &mut acc, &mut bounds);
            ("model_checking", "every automaton: reachable states by the crate's child function over all labels vs 1 + distinct prefixes of reportable patterns vs num_states()".into(), vec![])
        }
        _ => return None,
    };
    let _ = (json!(null), Auto::same, pop::rebuild);
    Some(Outcome { acc, spec_level: level, rule, bounds, assumptions })
}

pub fn finish(prop: &str, tier: &str, out: &Outcome, wall: f64) {
    let spec = EvidenceSpec {
        property: prop,
        tier,
        level: out.spec_level,
        rule: &out.rule,
        bounds: out.bounds.clone(),
        assumptions: out.assumptions.clone(),
        exhaustive: true,
    };
    util::write_evidence(&spec, &out.acc, wall);
}

/// Replays a table finding: rebuilds the automaton and explores it again.
pub fn replay_table(case: &serde_json::Value) -> bool {
    let (cfg, pats, vals) = pop::rebuild(case);
    let prop = case["found_by"].as_str().or(case["property"].as_str()).unwrap_or("C01").to_string();
    let mut acc = Acc::new();
    let Some(mut b) = e2::build_or_violate(&prop, "table", cfg, &pats, vals.as_deref(), &mut acc) else {
        return true;
    };
    if case["restored"].as_bool() == Some(true) {
        b = b.round_trip();
    }
    let origin = case.clone();
    e1::check_table(&prop, &b, &pats, &origin, &mut acc);
    if let Some(h) = case["haystack"].as_str() {
        println!("replay: witness haystack {}", h);
    }
    !acc.violations.is_empty()
}

/// E5: runs the shuttle explorer (separate binary) and merges its counts.
pub fn run_sched(tier: &str, acc: &mut Acc, bounds: &mut Vec<String>) {
    let exe = std::env::current_exe().unwrap().with_file_name("sched");
    let out = std::process::Command::new(&exe).arg("check").arg(tier).output();
    match out {
        Ok(o) => {
            let txt = String::from_utf8_lossy(&o.stdout).to_string();
            for line in txt.lines() {
                if let Some(j) = line.strip_prefix("SCHED-SUMMARY ") {
                    if let Ok(v) = serde_json::from_str::<serde_json::Value>(j) {
                        acc.states += v["schedules"].as_u64().unwrap_or(0);
                        acc.transitions += v["steps"].as_u64().unwrap_or(0);
                        acc.traces += v["schedules"].as_u64().unwrap_or(0);
                        acc.count("shuttle_schedules", v["schedules"].as_u64().unwrap_or(0));
                        acc.count("shuttle_harnesses", v["harnesses"].as_u64().unwrap_or(0));
                        acc.count("distinct_pull_interleavings", v["distinct_interleavings"].as_u64().unwrap_or(0));
                        if let Some(b) = v["bounds"].as_str() {
                            bounds.push(b.to_string());
                        }
                        if let Some(s) = v.get("sample") {
                            acc.samples.insert(0, s.clone());
                        }
                    }
                } else if line.starts_with("VIOLATION") || line.starts_with("  what:") {
                    println!("{line}");
                    if line.starts_with("VIOLATION") {
                        acc.violations.push(util::Violation { property: "C14".into(), engine: "sched", what: line.to_string(), case: json!({}) });
                    }
                }
            }
            if !o.status.success() && !txt.contains("VIOLATION") {
                eprintln!("MACHINERY: sched exited with {:?}: {}", o.status, String::from_utf8_lossy(&o.stderr));
                std::process::exit(2);
            }
        }
        Err(e) => {
            eprintln!("MACHINERY: cannot run {exe:?}: {e}");
            std::process::exit(2);
        }
    }
}

/// Value-type matrix (separate binary): runs it and merges its counts.
pub fn run_types(which: &str, tier: &str, acc: &mut Acc, bounds: &mut Vec<String>) {
    let exe = std::env::current_exe().unwrap().with_file_name("daacmc-types");
    let out = std::process::Command::new(&exe).arg("check").arg(which).arg(tier).stderr(std::process::Stdio::inherit()).output();
    match out {
        Ok(o) => {
            let txt = String::from_utf8_lossy(&o.stdout).to_string();
            let mut seen = false;
            for line in txt.lines() {
                if let Some(j) = line.strip_prefix("TYPES-SUMMARY ") {
                    if let Ok(v) = serde_json::from_str::<serde_json::Value>(j) {
                        seen = true;
                        acc.evals += v["evals"].as_u64().unwrap_or(0);
                        acc.nontrivial += v["nontrivial"].as_u64().unwrap_or(0);
                        acc.traces += v["traces"].as_u64().unwrap_or(0);
                        if let Some(c) = v["counters"].as_object() {
                            for (k, x) in c {
                                acc.count(&format!("types_{k}"), x.as_u64().unwrap_or(0));
                            }
                        }
                        if !v["sample"].is_null() {
                            acc.samples.insert(0, v["sample"].clone());
                        }
                        bounds.push(format!("value-type matrix ({which}): 16 types (u8..u128, usize, i8..i128, isize, Empty, user3, user10, user_tag) x 2 variants x 3 kinds x all methods x value assignments, before/after round trip: {}", v["notes"][0].as_str().unwrap_or("")));
                    }
                } else if line.starts_with("VIOLATION") || line.starts_with("  what:") {
                    println!("{line}");
                    if line.starts_with("VIOLATION") {
                        acc.violations.push(util::Violation { property: which.into(), engine: "types", what: line.to_string(), case: json!({}) });
                    }
                }
            }
            if (!seen || !o.status.success()) && !txt.contains("VIOLATION") {
                eprintln!("MACHINERY: daacmc-types exited with {:?}", o.status);
                std::process::exit(2);
            }
        }
        Err(e) => {
            eprintln!("MACHINERY: cannot run {exe:?}: {e}");
            std::process::exit(2);
        }
    }
}

//! Structured large pattern families: deterministic, designed to span / evict many blocks.

#[derive(Clone)]
pub struct Family {
    pub name: String,
    pub pats: Vec<Vec<u8>>,
    pub utf8: bool,
}

fn fam(name: &str, pats: Vec<Vec<u8>>) -> Family {
    let utf8 = pats.iter().all(|p| std::str::from_utf8(p).is_ok());
    Family {
        name: name.to_string(),
        pats,
        utf8,
    }
}

fn product(xs: &[u8], ys: &[u8]) -> Vec<Vec<u8>> {
    let mut v = Vec::new();
    for &x in xs {
        for &y in ys {
            v.push(vec![x, y]);
        }
    }
    v
}

fn lcg_set(seed: u64, n: usize, maxlen: usize, alpha: &[u8]) -> Vec<Vec<u8>> {
    let mut x = seed.wrapping_mul(6364136223846793005).wrapping_add(1442695040888963407);
    let mut next = || {
        x = x.wrapping_mul(6364136223846793005).wrapping_add(1442695040888963407);
        (x >> 33) as usize
    };
    let mut set = std::collections::BTreeSet::new();
    let mut guard = 0;
    while set.len() < n && guard < 20 * n {
        guard += 1;
        let l = 1 + next() % maxlen;
        let p: Vec<u8> = (0..l).map(|_| alpha[next() % alpha.len()]).collect();
        set.insert(p);
    }
    set.into_iter().collect()
}

/// Byte-wise families. `level` 0 = quick subset, 1 = thorough.
pub fn byte_families(level: u32, seed: u64) -> Vec<Family> {
    let all: Vec<u8> = (0..=255u8).collect();
    let mut v = Vec::new();
    v.push(fam("prod_0..16x0..256", product(&all[..16], &all)));
    v.push(fam("prod_0..256x0..8", product(&all, &all[..8])));
    let evens: Vec<u8> = all.iter().copied().filter(|b| b % 2 == 0).collect();
    let odds: Vec<u8> = all.iter().copied().filter(|b| b % 2 == 1).collect();
    v.push(fam("prod_evens_x_odds_48", product(&evens[..48], &odds)));
    v.push(fam("prod_hi_x_hi", product(&all[128..], &all[128..])));
    // three-level comb with leaves {00,01,ff}
    let mut comb = Vec::new();
    for a in 0..40u8 {
        for b in [0u8, 1, 2, 0x7f, 0x80, 0xfe, 0xff] {
            for l in [0u8, 1, 0xff] {
                comb.push(vec![a, b, l]);
            }
        }
    }
    v.push(fam("comb_40x7x{00,01,ff}", comb));
    // root fan-outs around the block-fill boundary
    for n in [253usize, 254, 255, 256] {
        v.push(fam(
            &format!("fanout_{n}"),
            (0..n).map(|i| vec![i as u8]).collect(),
        ));
    }
    // a full first block and one state that must open the next block with a single edge whose child
    // lands exactly on (or next to) the block boundary
    for n in [252usize, 253, 254, 255, 256] {
        for l in [0x00u8, 0x01, 0xff] {
            let mut p: Vec<Vec<u8>> = (0..n).map(|i| vec![i as u8]).collect();
            p.push(vec![0x00, l]);
            v.push(fam(&format!("fanout_{n}+[00,{l:02x}]"), p));
        }
    }
    // the same one level deeper, after two full blocks
    for l in [0x00u8, 0xff] {
        let mut p: Vec<Vec<u8>> = (0..254usize).map(|i| vec![i as u8]).collect();
        for i in 0..256usize {
            p.push(vec![0x01, i as u8]);
        }
        p.push(vec![0x02, l]);
        p.push(vec![0x02, l, l]);
        v.push(fam(&format!("fanout_254+256+[02,{l:02x},{l:02x}]"), p));
    }
    // block-fill grid: a full first block (k one-byte patterns), one state F below the largest label
    // that opens the next block through the fallback with a sparse child set, and m states with all
    // 256 children that each take a whole block (so that blocks are dropped while block 1 still has
    // vacancies at its very beginning)
    let ks: &[usize] = if level >= 1 { &[253, 254, 255] } else { &[254] };
    let ms: &[usize] = if level >= 1 { &[1, 2, 3, 6] } else { &[3, 6] };
    let fsets: &[&[u8]] = &[&[0x01], &[0x01, 0x02], &[0xff], &[0x00, 0x01], &[0x02, 0x80]];
    for &k in ks {
        for &m in ms {
            for (fi, fs) in fsets.iter().enumerate() {
                if level == 0 && fi > 2 {
                    continue;
                }
                let mut p: Vec<Vec<u8>> = (0..k).map(|i| vec![i as u8]).collect();
                let top = (k - 1) as u8;
                for &c in fs.iter() {
                    p.push(vec![top, c]);
                }
                for j in 1..=m {
                    for c in 0..=255u8 {
                        p.push(vec![j as u8, c]);
                    }
                }
                v.push(fam(&format!("blockfill_k{k}_m{m}_F{}", fs.iter().map(|b| format!("{b:02x}")).collect::<Vec<_>>().join("")), p));
            }
        }
    }
    // fan-out plus second level that has to go to the next block
    let mut f2: Vec<Vec<u8>> = (0..256usize).map(|i| vec![i as u8]).collect();
    for i in 0..256usize {
        f2.push(vec![0, i as u8]);
        f2.push(vec![0xff, i as u8]);
    }
    v.push(fam("fanout_256_plus_2x256", f2));
    // single chains (depth across blocks)
    for n in [300usize, 1000] {
        v.push(fam(
            &format!("chain_{n}"),
            vec![(0..n).map(|i| (i * 7 % 251) as u8).collect()],
        ));
    }
    // prefix-nested families: deep output chains
    v.push(fam(
        "a^i_i<=300",
        (1..=300).map(|i| vec![b'a'; i]).collect(),
    ));
    let word: Vec<u8> = (0..200usize).map(|i| (i * 13 % 7) as u8).collect();
    v.push(fam(
        "all_prefixes_of_word200_over_0..7",
        (1..=word.len()).map(|i| word[..i].to_vec()).collect(),
    ));
    // all suffixes too (fail links everywhere)
    let w2: Vec<u8> = (0..120usize).map(|i| [0u8, 1, 0xff][(i * i + i / 3) % 3]).collect();
    let mut sfx: std::collections::BTreeSet<Vec<u8>> = std::collections::BTreeSet::new();
    for i in 0..w2.len() {
        sfx.insert(w2[i..].to_vec());
    }
    v.push(fam("all_suffixes_of_word120_over_{00,01,ff}", sfx.into_iter().collect()));
    // all strings of length <= 3 over 12 labels incl. 00/01/ff
    let a12 = [0u8, 1, 2, 3, 0x40, 0x41, 0x7f, 0x80, 0x81, 0xfd, 0xfe, 0xff];
    let mut cube = Vec::new();
    for &a in &a12 {
        cube.push(vec![a]);
        for &b in &a12 {
            cube.push(vec![a, b]);
            for &c in &a12 {
                cube.push(vec![a, b, c]);
            }
        }
    }
    v.push(fam("all_len<=3_over_12_labels", cube));
    v.push(fam(
        "lcg_a",
        lcg_set(seed ^ 0x1234, 3000, 6, &[0, 1, 2, 0x61, 0x62, 0xfe, 0xff]),
    ));
    // a grid of pseudo-random dictionaries (deterministic LCG): layout defects of the double array
    // typically show on a few percent of such sets, so several shapes x sizes are explored
    let letters: Vec<u8> = (b'a'..=b'z').collect();
    let alphas: [(&str, Vec<u8>); 4] = [
        ("0123", vec![0, 1, 2, 3]),
        ("00_01_02_ff_a", vec![0, 1, 2, 0xff, b'a']),
        ("a-z", letters),
        ("all256", all.clone()),
    ];
    for (ai, (an, al)) in alphas.iter().enumerate() {
        for (si, &(n, maxlen)) in [(200usize, 4usize), (1000, 4), (600, 8)].iter().enumerate() {
            if level == 0 && si == 2 && ai >= 2 {
                continue;
            }
            for rep in 0..(if level >= 1 { 3u64 } else { 1 }) {
                v.push(fam(
                    &format!("lcg_grid_{an}_n{n}_len{maxlen}_r{rep}"),
                    lcg_set(seed ^ (0x5151 + 97 * ai as u64 + 13 * si as u64 + 1009 * rep), n, maxlen, al),
                ));
            }
        }
    }
    // substring families: random subsets of the substrings (length <= 7) of a base word and a few
    // point-mutated copies of it. Suffixes of patterns are prefixes of other patterns everywhere, so
    // fail chains of two and three hops through terminal and non-terminal states, with several
    // children per state, occur in all combinations - shapes that random dictionaries produce about
    // once in a million small sets
    let n_sub = if level >= 1 { 1500 } else { 400 };
    for fi in 0..n_sub {
        let mut x = (seed ^ 0xabcdef).wrapping_add(fi as u64).wrapping_mul(0x9e37_79b9_7f4a_7c15) | 1;
        let mut next = || {
            x ^= x << 13;
            x ^= x >> 7;
            x ^= x << 17;
            (x >> 20) as usize
        };
        let sigma = 3 + fi % 5; // 3..7 letters
        let letters: Vec<u8> = (0..sigma).map(|i| [b'a', b'b', b'c', b'd', b'x', b'y', b'z'][i]).collect();
        let wl = 7 + fi % 4;
        let base: Vec<u8> = (0..wl).map(|_| letters[next() % sigma]).collect();
        let mut words = vec![base.clone()];
        for _ in 0..(2 + fi % 3) {
            let mut w = base.clone();
            for _ in 0..(1 + next() % 2) {
                let p = next() % w.len();
                w[p] = letters[next() % sigma];
            }
            words.push(w);
        }
        let mut set = std::collections::BTreeSet::new();
        for w in &words {
            for i in 0..w.len() {
                for j in i + 1..=w.len().min(i + 7) {
                    // keep few short substrings (a short pattern kills the leftmost structure
                    // below it) and about 40% of the longer ones; every third family keeps no
                    // single letters at all
                    let l = j - i;
                    let keep = match l {
                        1 => fi % 3 != 0 && next() % 10 < 1,
                        2 => next() % 20 < 3,
                        _ => next() % 5 < 2,
                    };
                    if keep {
                        set.insert(w[i..j].to_vec());
                    }
                }
            }
        }
        if set.len() >= 4 {
            v.push(fam(&format!("substr_{fi}_s{sigma}_w{wl}"), set.into_iter().collect()));
        }
    }
    if level >= 1 {
        v.push(fam("prod_0..64x0..256", product(&all[..64], &all)));
        v.push(fam("lcg_b", lcg_set(seed ^ 0x9876, 6000, 5, &all)));
        v.push(fam(
            "chain_3000",
            vec![(0..3000usize).map(|i| (i * 11 % 256) as u8).collect()],
        ));
        let mut comb2 = Vec::new();
        for a in 0..=255u8 {
            for b in [0u8, 1, 0xff] {
                for l in [0u8, 1, 0x80, 0xff] {
                    comb2.push(vec![a, b, l]);
                }
            }
        }
        v.push(fam("comb_256x3x4", comb2));
    }
    v
}


/// Fail-chain shape grid for the leftmost kinds: a state P = u.v.t whose suffix chain runs over the
/// non-terminal v.t to the pattern t, with two children c1 and c of P (one that dead-ends on the
/// chain, one that resolves below v.t), a grandchild that resolves only below t.c, and the patterns
/// that make those nodes exist: { u.v.t.c1, u.v.t.c.d.z, v.t.c.w, t, t.c.d }. Every assignment of the
/// eight roles to `sigma` letters is generated (degenerate assignments included - they give other
/// shapes of the same size).
pub fn fail_chain_grid(sigma: usize) -> Vec<Family> {
    let letters = [b'a', b'b', b'c', b'd', b'x', b'y'];
    let mut v = Vec::new();
    let total = sigma.pow(8);
    for code in 0..total {
        let mut r = [0u8; 8];
        let mut k = code;
        for x in r.iter_mut() {
            *x = letters[k % sigma];
            k /= sigma;
        }
        let [u, vv, t, c1, c, d, z, w] = r;
        let mut set = std::collections::BTreeSet::new();
        set.insert(vec![u, vv, t, c1]);
        set.insert(vec![u, vv, t, c, d, z]);
        set.insert(vec![vv, t, c, w]);
        set.insert(vec![t]);
        set.insert(vec![t, c, d]);
        if set.len() == 5 {
            v.push(Family {
                name: format!("failchain_{sigma}_{code}"),
                pats: set.into_iter().collect(),
                utf8: true,
            });
        }
    }
    v
}

/// Second fail-chain template: a state s = x.a.b with a child on c whose fail chain runs over the
/// non-output state a.b (no c child) to the *output* state b, which has a c child because the longer
/// pattern b.c exists: { x.a.b.c.z, a.b.d, b.c, b }. Every assignment of the six roles to `sigma`
/// letters; the leftmost-first check builds each in all 24 registration orders.
pub fn fail_chain_grid2(sigma: usize) -> Vec<Family> {
    let letters = [b'a', b'b', b'c', b'd', b'x', b'y'];
    let mut v = Vec::new();
    for code in 0..sigma.pow(6) {
        let mut r = [0u8; 6];
        let mut k = code;
        for x in r.iter_mut() {
            *x = letters[k % sigma];
            k /= sigma;
        }
        let [x, a, b, c, z, d] = r;
        let mut set = std::collections::BTreeSet::new();
        set.insert(vec![x, a, b, c, z]);
        set.insert(vec![a, b, d]);
        set.insert(vec![b, c]);
        set.insert(vec![b]);
        if set.len() == 4 {
            v.push(Family { name: format!("failchain2_{sigma}_{code}"), pats: set.into_iter().collect(), utf8: true });
        }
    }
    v
}

/// Wide deep states: a prefix p of 3-5 letters over {a, c} (self-overlapping prefixes included) with
/// five or six children, some of whose labels also occur in p - so that the fail chain of p's state
/// has children on a subset of the same labels.
pub fn wide_state_grid() -> Vec<Family> {
    let mut v = Vec::new();
    let child_sets: [&[u8]; 6] = [b"bcdef", b"abcde", b"acdef", b"abdef", b"abcdef", b"acefg"];
    let mut prefixes: Vec<Vec<u8>> = Vec::new();
    let mut layer: Vec<Vec<u8>> = vec![vec![]];
    for l in 1..=5 {
        let mut next = Vec::new();
        for w in &layer {
            for &c in b"ac" {
                let mut x = w.clone();
                x.push(c);
                next.push(x);
            }
        }
        if l >= 2 {
            prefixes.extend(next.iter().cloned());
        }
        layer = next;
    }
    for p in &prefixes {
        for (si, cs) in child_sets.iter().enumerate() {
            let mut set = std::collections::BTreeSet::new();
            for &c in cs.iter() {
                let mut x = p.clone();
                x.push(c);
                set.insert(x);
            }
            // a second variant with one more pattern that makes a suffix of p a wide state as well
            v.push(Family { name: format!("wide_{}_{si}", String::from_utf8_lossy(p)), pats: set.iter().cloned().collect(), utf8: true });
            if p.len() >= 3 {
                let mut set2 = set.clone();
                for &c in cs.iter().take(3) {
                    let mut x = p[p.len() - 2..].to_vec();
                    x.push(c);
                    x.push(b'z');
                    set2.insert(x);
                }
                v.push(Family { name: format!("wide2_{}_{si}", String::from_utf8_lossy(p)), pats: set2.into_iter().collect(), utf8: true });
            }
        }
    }
    v
}

/// Families for the leftmost kinds only (the layout is irrelevant there, so they are built with the
/// default settings only): sparse mutant families.
pub fn leftmost_shape_families(level: u32, seed: u64) -> Vec<Family> {
    let mut v: Vec<Family> = Vec::new();
    // sparse mutant families: a base word of 6-7 letters and 6-12 copies with one or two letters
    // replaced; a pattern is a prefix-cut or an infix of one of the words, chosen sparsely, so that
    // most suffixes of a pattern are *not* themselves prefixes of patterns (fail chains that dead-end
    // for one child and resolve two hops down for its sibling)
    let n_sparse = if level >= 1 { 60_000 } else { 20_000 };
    for fi in 0..n_sparse {
        let mut x = (seed ^ 0x51ab_7e55).wrapping_add(fi as u64 * 7919).wrapping_mul(0x9e37_79b9_7f4a_7c15) | 1;
        let mut next = || {
            x ^= x << 13;
            x ^= x >> 7;
            x ^= x << 17;
            (x >> 20) as usize
        };
        let sigma = 4 + fi % 6; // 4..9 letters
        let letters: Vec<u8> = (0..sigma).map(|i| [b'a', b'b', b'c', b'd', b'q', b'w', b'x', b'y', b'z'][i]).collect();
        let wl = 6 + fi % 2;
        let base: Vec<u8> = (0..wl).map(|_| letters[next() % sigma]).collect();
        let mut words = vec![base.clone()];
        for _ in 0..(6 + fi % 7) {
            let mut w = base.clone();
            for _ in 0..(1 + next() % 2) {
                let p = next() % w.len();
                w[p] = letters[next() % sigma];
            }
            words.push(w);
        }
        let mut set = std::collections::BTreeSet::new();
        for w in &words {
            // one or two infixes per word: [i..j) with random i, j
            for _ in 0..(1 + next() % 2) {
                let i = next() % (w.len() - 1);
                let j = i + 1 + next() % (w.len() - i);
                set.insert(w[i..j.min(w.len())].to_vec());
            }
        }
        if set.len() >= 4 {
            v.push(fam(&format!("sparse_{fi}_s{sigma}_w{wl}"), set.into_iter().collect()));
        }
    }
    v
}

fn chars_from(base: u32, n: usize) -> Vec<char> {
    (0..n as u32)
        .map(|i| char::from_u32(base + i).expect("scalar"))
        .collect()
}

fn strings_over(alpha: &[char], maxlen: usize) -> Vec<Vec<u8>> {
    let mut all: Vec<String> = Vec::new();
    let mut layer: Vec<String> = vec![String::new()];
    for _ in 0..maxlen {
        let mut next = Vec::new();
        for w in &layer {
            for &c in alpha {
                let mut x = w.clone();
                x.push(c);
                next.push(x);
            }
        }
        all.extend(next.iter().cloned());
        layer = next;
    }
    all.into_iter().map(String::into_bytes).collect()
}

/// Char-wise families: alphabets of 2,3,4,5,17,255,256,257 characters give block lengths
/// 2,4,4,8,32,256,256,512, so tiny pattern sets already span and evict many blocks.
pub fn char_families(level: u32, seed: u64) -> Vec<Family> {
    let mut v = Vec::new();
    // alphabet 2 (block length 2): all strings up to length 6 / 8
    v.push(fam(
        "chars2_len<=6",
        strings_over(&['a', '\u{4e16}'], 6),
    ));
    v.push(fam(
        "chars3_len<=5",
        strings_over(&['a', '\u{e9}', '\u{1f600}'], 5),
    ));
    v.push(fam(
        "chars4_len<=4",
        strings_over(&['\u{0}', '\u{1}', '\u{7f}', '\u{80}'], 4),
    ));
    v.push(fam(
        "chars5_len<=4",
        strings_over(&['\u{7ff}', '\u{800}', '\u{ffff}', '\u{10000}', 'z'], 4),
    ));
    v.push(fam("chars17_len<=2", strings_over(&chars_from(0x4e00, 17), 2)));
    // chains / nests over tiny alphabets
    v.push(fam(
        "chars2_chain_400",
        vec![(0..400usize)
            .map(|i| if (i * i / 3) % 2 == 0 { 'a' } else { '\u{4e16}' })
            .collect::<String>()
            .into_bytes()],
    ));
    v.push(fam(
        "chars1_nested_200",
        (1..=200)
            .map(|i| "\u{e9}".repeat(i).into_bytes())
            .collect(),
    ));
    for n in [255usize, 256, 257] {
        let al = chars_from(0x100, n);
        let mut p: Vec<Vec<u8>> = al.iter().map(|c| c.to_string().into_bytes()).collect();
        // second level below the first, the middle and the last character
        for &a in &[al[0], al[n / 2], al[n - 1]] {
            for &b in &al {
                let mut s = String::new();
                s.push(a);
                s.push(b);
                p.push(s.into_bytes());
            }
        }
        v.push(fam(&format!("chars{n}_fanout+3x{n}"), p));
    }
    // uneven frequencies so that the code mapper ranks matter
    let mut uneven = Vec::new();
    let al = chars_from(0x3041, 9);
    for (i, &a) in al.iter().enumerate() {
        for j in 0..=i {
            let mut s = String::new();
            for _ in 0..=j {
                s.push(a);
            }
            s.push(al[(i + j) % 9]);
            uneven.push(s.into_bytes());
        }
    }
    uneven.sort();
    uneven.dedup();
    v.push(fam("chars9_uneven_freq", uneven));
    let lc = lcg_set(seed ^ 0x55, 800, 5, &[0, 1, 2, 3, 4, 5]);
    let al6 = ['a', 'b', '\u{e9}', '\u{4e16}', '\u{4e17}', '\u{1f600}'];
    v.push(fam(
        "chars6_lcg",
        lc.iter()
            .map(|p| p.iter().map(|&i| al6[i as usize]).collect::<String>().into_bytes())
            .collect(),
    ));
    // pseudo-random character dictionaries over alphabets of 5, 26 and 300 characters
    let calphas: [(&str, Vec<char>); 3] = [
        ("5", vec!['a', 'b', '\u{e9}', '\u{4e16}', '\u{1f600}']),
        ("26", chars_from(0x3041, 26)),
        ("300", chars_from(0x4e00, 300)),
    ];
    for (ai, (an, al)) in calphas.iter().enumerate() {
        for (si, &(n, maxlen)) in [(200usize, 5usize), (800, 4)].iter().enumerate() {
            for rep in 0..(if level >= 1 { 3u64 } else { 1 }) {
                let idx: Vec<u8> = (0..al.len().min(250) as u8).collect();
                let raw = lcg_set(seed ^ (0x7171 + 31 * ai as u64 + 7 * si as u64 + 733 * rep), n, maxlen, &idx);
                let pats: Vec<Vec<u8>> = raw
                    .iter()
                    .map(|p| p.iter().map(|&i| al[(i as usize * 7 + p.len()) % al.len()]).collect::<String>().into_bytes())
                    .collect::<std::collections::BTreeSet<_>>()
                    .into_iter()
                    .collect();
                v.push(fam(&format!("chars_lcg_grid_{an}_n{n}_len{maxlen}_r{rep}"), pats));
            }
        }
    }
    // leftmost-first shadowing: k one-character patterns registered first, then patterns that start
    // with one of them (skipped under leftmost-first) and bring m characters that label no edge
    for (k, m) in [(2usize, 1usize), (2, 3), (3, 6), (5, 4), (2, 20), (7, 60)] {
        let heads = chars_from(0x61, k);
        let extra = chars_from(0x4e00, m);
        let mut p: Vec<Vec<u8>> = heads.iter().map(|c| c.to_string().into_bytes()).collect();
        for (i, &h) in heads.iter().enumerate() {
            let mut s = String::new();
            s.push(h);
            for (j, &e) in extra.iter().enumerate() {
                if (i + j) % k == i % k || m <= 6 {
                    s.push(e);
                }
            }
            p.push(s.into_bytes());
        }
        v.push(fam(&format!("chars_lf_shadow_k{k}_m{m}"), p));
    }
    // alphabets beyond 512 / 1024 characters (block lengths 1024 and 2048)
    {
        let al = chars_from(0x1000, 1000);
        let mut p: Vec<Vec<u8>> = al.iter().map(|c| c.to_string().into_bytes()).collect();
        for &a in &[al[0], al[511], al[512], al[999]] {
            for &b in al.iter().step_by(7) {
                let mut s = String::new();
                s.push(a);
                s.push(b);
                p.push(s.into_bytes());
            }
        }
        v.push(fam("chars1000_fanout+4x143", p));
        let al = chars_from(0x2000, 1030);
        v.push(fam("chars1030_single", al.iter().map(|c| c.to_string().into_bytes()).collect()));
    }
    if level >= 1 {
        v.push(fam("chars2_len<=9", strings_over(&['\u{0}', '\u{10ffff}'], 9)));
        v.push(fam("chars3_len<=7", strings_over(&['x', 'y', '\u{7ff}'], 7)));
        v.push(fam("chars33_len<=2", strings_over(&chars_from(0x4e00, 33), 2)));
        v.push(fam("chars1000_single", strings_over(&chars_from(0x1000, 1000), 1)));
    }
    v
}

/// 100 000 pseudo-random 5-byte patterns (an array of about 1 300 blocks).
pub fn huge_random_5byte(seed: u64) -> Vec<Vec<u8>> {
    let mut x = 0x1234_5678_9abc_def1u64 ^ seed;
    let mut set = std::collections::BTreeSet::new();
    while set.len() < 100_000 {
        x ^= x << 13;
        x ^= x >> 7;
        x ^= x << 17;
        let p: Vec<u8> = (0..5).map(|i| (x >> (8 * i)) as u8).collect();
        set.insert(p);
    }
    set.into_iter().collect()
}

pub fn nfb_values(level: u32) -> Vec<Option<u32>> {
    if level == 0 {
        vec![Some(1), Some(2), Some(3), Some(5), None, Some(64)]
    } else {
        let mut v: Vec<Option<u32>> = (1..=64).map(Some).collect();
        v.push(None);
        v
    }
}

/// Fail chains whose j-th hop is the first state with the dead fail link (leftmost kinds): a word
/// w of L distinct letters, the patterns w[i..]+x for i = 0..L (one suffix chain of length L), plus a
/// marker that makes the state of w[j..] an output state (mode 0) or a state below an output state
/// (mode 1), with or without the rest of the chain; L = 3..5, every j. `cjk` maps the letters to
/// three-byte characters.
pub fn dead_hop_grid(cjk: bool) -> Vec<Family> {
    let ascii: [&str; 7] = ["a", "b", "c", "d", "e", "x", "y"];
    let wide: [&str; 7] = ["\u{6771}", "\u{4eac}", "\u{90fd}", "\u{5e9c}", "\u{6c11}", "\u{5e81}", "\u{5e02}"];
    let l = if cjk { wide } else { ascii };
    let word = |idx: &[usize]| -> Vec<u8> { idx.iter().flat_map(|&i| l[i].as_bytes().to_vec()).collect() };
    let mut v = Vec::new();
    for len in 3..=5usize {
        let w: Vec<usize> = (0..len).collect();
        for j in 1..len {
            for mode in 0..2 {
                for keep_tail in [false, true] {
                    let mut set = std::collections::BTreeSet::new();
                    let last = if keep_tail { len - 1 } else { j };
                    for i in 0..=last {
                        let mut p = w[i..].to_vec();
                        p.push(5);
                        set.insert(word(&p));
                    }
                    let marker: Vec<usize> = if mode == 0 { w[j..].to_vec() } else { w[j..len - 1].to_vec() };
                    if marker.is_empty() {
                        continue;
                    }
                    set.insert(word(&marker));
                    // a competitor that starts at the mismatch position
                    set.insert(word(&[6]));
                    v.push(Family { name: format!("deadhop_{}_{len}_{j}_{mode}_{}", if cjk { "cjk" } else { "ascii" }, u8::from(keep_tail)), pats: set.into_iter().collect(), utf8: true });
                }
            }
        }
    }
    v
}

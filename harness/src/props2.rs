//! Compositions for C07, C08, C09, C11 (closure, bisimulations, round trips).

use crate::auto::{Auto, Cfg, Entry, Kind, Method, Variant};
use crate::e1;
use crate::e2::{self, Built, Scope};
use crate::e34::{self, Side};
use crate::enumr::{self, Order};
use crate::families;
use crate::pop;
use crate::props::tier_is_thorough;
use crate::util::{self, hex, par_for, set_case, Acc};
use serde_json::{json, Value};

// ------------------------------------------------------------------------------------------------
// shared: compare two automata by product exploration, confirm through the public API

/// Returns true when the exploration completed without a difference.
#[allow(clippy::too_many_arguments)]
pub fn bisim_or_violate(
    prop: &str,
    what: &str,
    a: &Auto,
    b: &Auto,
    kind: Kind,
    labels: &[u32],
    char_gran: bool,
    origin: &Value,
    acc: &mut Acc,
) -> bool {
    let sa = Side::new(a, kind);
    let sb = Side::new(b, kind);
    let r = e34::bisim(&sa, &sb, labels, char_gran);
    acc.states += r.pairs;
    acc.transitions += r.transitions;
    acc.traces += 2 * r.transitions;
    acc.count("automaton_pairs_explored", 1);
    match r.diff {
        None => true,
        Some((path, desc)) => {
            if desc.starts_with("FAULT") {
                let mut hay = Vec::new();
                for &l in &path {
                    crate::oracle::encode_label(char_gran || a.variant() == Variant::Char, l, &mut hay);
                }
                // executed on both automata: a real out-of-bounds read aborts under the precondition
                // checks and is attributed by the panic hook; a real endless loop by the watchdog
                let slot = util::my_slot();
                for tail in [&b""[..], &b"\x00"[..], &b"a"[..]] {
                    let mut h2 = hay.clone();
                    h2.extend_from_slice(tail);
                    util::set_case("C07", "bisim", e2::with(origin.clone(), "table_fault", json!(desc)));
                    util::set_hay(&slot, &h2);
                    for x in [a, b] {
                        for &m in Method::for_kind(kind) {
                            let _ = std::panic::catch_unwind(std::panic::AssertUnwindSafe(|| x.run(m, &h2)));
                            let _ = util::take_last_panic();
                        }
                    }
                }
                acc.count("unconfirmed_table_faults", 1);
                let _ = what;
                return false;
            }
            let as_chars = char_gran || a.variant() == Variant::Char;
            match e34::confirm_diff(a, b, kind, &path, labels, as_chars) {
                Some((hay, m, ra, rb)) => {
                    acc.violate(
                        prop,
                        "bisim",
                        format!(
                            "{what}: {} differs on haystack {:?}: {:?} vs {:?} [{desc}]",
                            m.name(),
                            e2::show(&hay),
                            ra,
                            rb
                        ),
                        e34::diff_case(origin, &hay, m, &ra, &rb),
                    );
                }
                None => {
                    acc.count("unconfirmed_bisim_differences", 1);
                    acc.notes.push(format!(
                        "{what}: product exploration stopped at a structural difference that no search through the public API showed: {desc}"
                    ));
                }
            }
            false
        }
    }
}

fn all_labels(auto: &Auto) -> Vec<u32> {
    let raw = auto.raw();
    let (mut m, u) = e1::label_set(&raw, auto.variant() == Variant::Char);
    m.extend(u);
    m
}

// ------------------------------------------------------------------------------------------------
// C11

pub fn c11(tier: &str, acc: &mut Acc, bounds: &mut Vec<String>) {
    let prop = "C11";
    let level = if tier_is_thorough(tier) { 1 } else { 0 };
    let fams = pop::families_for(level);
    let ks: Vec<u32> = if level == 0 {
        // every value up to 17 (powers of two, odd values, their neighbours) and a few large ones
        (1..=17).chain([24, 31, 32, 33, 48, 64]).collect()
    } else {
        (1..=64).collect()
    };
    let mut tasks = Vec::new();
    for i in 0..fams.len() {
        for k in Kind::ALL {
            tasks.push((i, k));
        }
    }
    tasks.sort_by_key(|t| std::cmp::Reverse(fams[t.0].1.pats.iter().map(Vec::len).sum::<usize>()));
    let a = par_for(tasks.len(), |ti, acc| {
        let (fi, kind) = tasks[ti];
        let (variant, fam) = &fams[fi];
        let dcfg = Cfg::new(*variant, kind, None, Entry::Builder);
        set_case(prop, "bisim", pop::origin_json(fam, level, &dcfg));
        let Some(d) = e2::build_or_violate(prop, "bisim", dcfg, &fam.pats, None, acc) else {
            return;
        };
        let labels = all_labels(&d.auto);
        for &k in &ks {
            if util::stopped() {
                return;
            }
            let cfg = Cfg::new(*variant, kind, Some(k), Entry::Builder);
            let origin = pop::origin_json(fam, level, &cfg);
            set_case(prop, "bisim", origin.clone());
            let Some(b) = e2::build_or_violate(prop, "bisim", cfg, &fam.pats, None, acc) else {
                continue;
            };
            acc.evals += 1;
            let raw = b.auto.raw();
            let block = if *variant == Variant::Char {
                raw.alphabet_size.next_power_of_two().max(2) as usize
            } else {
                256
            };
            let nblocks = raw.states.len() / block;
            acc.max("blocks", nblocks as u64);
            if nblocks > k as usize {
                acc.count("automata_with_evicted_blocks", 1);
                acc.nontrivial += 1;
            }
            if b.auto.num_states() != d.auto.num_states() {
                acc.violate(
                    prop,
                    "bisim",
                    format!(
                        "num_states() is {} with num_free_blocks={k} and {} with the default",
                        b.auto.num_states(),
                        d.auto.num_states()
                    ),
                    origin.clone(),
                );
            }
            let done = bisim_or_violate(
                prop,
                &format!("num_free_blocks={k} vs default on family {}", fam.name),
                &b.auto,
                &d.auto,
                kind,
                &labels,
                false,
                &origin,
                acc,
            );
            if done {
                acc.sample(|| {
                    e2::with(origin.clone(), "result", json!("bisimilar to the default build"))
                });
            }
            // the other properties continue to hold: closure of the k-automaton (C07)
            e1::check_table("C07", &b, &fam.pats, &origin, acc);
        }
    });
    acc.merge(a);
    if level >= 1 {
        // one very large array (about 1 300 blocks): settings just below 64 that are not powers of two
        let pats: Vec<Vec<u8>> = families::huge_random_5byte(util::seed());
        let kind = Kind::Std;
        let dcfg = Cfg::new(Variant::Byte, kind, None, Entry::Builder);
        let big_ks = [51u32, 56, 57, 63, 7, 3];
        let origin0 = json!({"note": "100000 pseudo-random 5-byte patterns (xorshift, see props2::c11)", "variant": "bytewise", "kind": "standard"});
        set_case(prop, "bisim", origin0.clone());
        if let Some(d) = e2::build_or_violate(prop, "bisim", dcfg, &pats, None, acc) {
            let labels = all_labels(&d.auto);
            let a2 = par_for(big_ks.len(), |ki, acc| {
                let k = big_ks[ki];
                let cfg = Cfg::new(Variant::Byte, kind, Some(k), Entry::Builder);
                let mut origin = cfg.json();
                origin.as_object_mut().unwrap().insert("huge_family".into(), json!("100000 pseudo-random 5-byte patterns"));
                origin.as_object_mut().unwrap().insert("seed".into(), json!(util::seed()));
                origin.as_object_mut().unwrap().insert("haystack".into(), json!(hex(&pats.iter().step_by(3).flat_map(|p| p.iter().copied()).take(60_000).collect::<Vec<u8>>())));
                set_case(prop, "bisim", origin.clone());
                let Some(b) = e2::build_or_violate(prop, "bisim", cfg, &pats, None, acc) else {
                    return;
                };
                acc.evals += 1;
                acc.nontrivial += 1;
                acc.max("blocks", (b.auto.raw().states.len() / 256) as u64);
                // differential on a long pseudo-random haystack first (cheap), then the full product
                let hay: Vec<u8> = pats.iter().step_by(3).flat_map(|p| p.iter().copied()).collect();
                if let Some((m, ra, rb)) = e34::differ(&b.auto, &d.auto, kind, &hay) {
                    acc.violate(prop, "bisim", format!("num_free_blocks={k} vs default on 100000 random 5-byte patterns: {} yields {} vs {} matches on a haystack of {} bytes", m.name(), ra.len(), rb.len(), hay.len()), origin.clone());
                    return;
                }
                bisim_or_violate(prop, &format!("num_free_blocks={k} vs default on 100000 random 5-byte patterns"), &b.auto, &d.auto, kind, &labels, false, &origin, acc);
            });
            acc.merge(a2);
        }
        bounds.push("E4 nfb in {51,56,57,63,7,3} vs default on one array of about 1 300 blocks (100000 random 5-byte patterns)".into());
    }
    bounds.push(format!(
        "E4 nfb in {:?} vs default x {} families (level {}) x 3 kinds, all labels",
        if level == 0 { format!("{ks:?}") } else { "1..=64".to_string() },
        fams.len(),
        level
    ));
}

pub fn replay_bisim(case: &Value) -> bool {
    let (cfg, pats, vals) = pop::rebuild(case);
    let mut acc = Acc::new();
    let prop = case["property"].as_str().unwrap_or("C11").to_string();
    let hay = util::unhex(case["haystack"].as_str().unwrap_or(""));
    let Some(b) = e2::build_or_violate(&prop, "bisim", cfg, &pats, vals.as_deref(), &mut acc) else {
        return true;
    };
    let other: Auto = match case["other"].as_str().unwrap_or("default_nfb") {
        "bytewise" => {
            let c2 = Cfg::new(Variant::Byte, cfg.kind, None, Entry::Builder);
            match e2::build_or_violate(&prop, "bisim", c2, &pats, vals.as_deref(), &mut acc) {
                Some(x) => x.auto,
                None => return true,
            }
        }
        "restored" => {
            let bytes = b.auto.serialize();
            Auto::deserialize(cfg.variant, &bytes).0
        }
        _ => {
            let c2 = Cfg::new(cfg.variant, cfg.kind, None, Entry::Builder);
            match e2::build_or_violate(&prop, "bisim", c2, &pats, vals.as_deref(), &mut acc) {
                Some(x) => x.auto,
                None => return true,
            }
        }
    };
    match e34::differ(&b.auto, &other, cfg.kind, &hay) {
        Some((m, ra, rb)) => {
            println!("replay: {} differs: {:?} vs {:?}", m.name(), ra, rb);
            true
        }
        None => {
            println!("replay: both automata agree on the haystack");
            false
        }
    }
}

// ------------------------------------------------------------------------------------------------
// C08

/// Labels for the char-vs-byte product: pattern characters, their code-point neighbours, one
/// character sharing each proper UTF-8 byte prefix, and the fixed unmapped set.
fn c08_labels(pats: &[Vec<u8>]) -> Vec<u32> {
    let mut set = std::collections::BTreeSet::new();
    for p in pats {
        for c in std::str::from_utf8(p).unwrap().chars() {
            let cp = u32::from(c);
            set.insert(cp);
            for d in [cp.wrapping_sub(1), cp + 1] {
                if char::from_u32(d).is_some() {
                    set.insert(d);
                }
            }
            // same UTF-8 prefix, different last byte(s)
            let mut b = [0u8; 4];
            let s = c.encode_utf8(&mut b).as_bytes().to_vec();
            for keep in 1..s.len() {
                let mut t = s.clone();
                for x in t.iter_mut().skip(keep) {
                    *x = if *x == 0xbf { 0x80 } else { 0xbf };
                }
                if let Ok(st) = std::str::from_utf8(&t) {
                    if let Some(ch) = st.chars().next() {
                        set.insert(u32::from(ch));
                    }
                }
            }
        }
    }
    for c in [0x0, 0x7a, 0x7f, 0x80, 0xdf, 0x7ff, 0x800, 0xd7ff, 0xe000, 0xffff, 0x10000, 0x10ffff] {
        set.insert(c);
    }
    set.into_iter().collect()
}

fn c08_pair(
    prop: &str,
    pats: &[Vec<u8>],
    kind: Kind,
    nfb: Option<u32>,
    labels: Option<&[u32]>,
    origin_extra: &Value,
    acc: &mut Acc,
) {
    let ccfg = Cfg::new(Variant::Char, kind, nfb, Entry::Builder);
    let bcfg = Cfg::new(Variant::Byte, kind, nfb, Entry::Builder);
    let mut origin = e2::case_json(&ccfg, pats, None);
    if let (Some(o), Some(e)) = (origin.as_object_mut(), origin_extra.as_object()) {
        for (k, v) in e {
            o.insert(k.clone(), v.clone());
        }
        o.insert("other".into(), json!("bytewise"));
    }
    set_case(prop, "bisim", origin.clone());
    let Some(c) = e2::build_or_violate(prop, "bisim", ccfg, pats, None, acc) else {
        return;
    };
    let Some(b) = e2::build_or_violate(prop, "bisim", bcfg, pats, None, acc) else {
        return;
    };
    let own;
    let labels = match labels {
        Some(l) => l,
        None => {
            own = c08_labels(pats);
            &own
        }
    };
    acc.evals += 1;
    if pats.iter().any(|p| std::str::from_utf8(p).unwrap().chars().any(|c| c.len_utf8() > 1)) {
        acc.nontrivial += 1;
    }
    let done = bisim_or_violate(
        prop,
        "char-wise vs byte-wise automaton",
        &c.auto,
        &b.auto,
        kind,
        labels,
        true,
        &origin,
        acc,
    );
    if done {
        acc.sample(|| e2::with(origin.clone(), "result", json!("bisimilar at character granularity")));
    }
}

pub fn c08(tier: &str, acc: &mut Acc, bounds: &mut Vec<String>) {
    let prop = "C08";
    let thorough = tier_is_thorough(tier);
    let cembs = enumr::char_embeddings();
    // E4 on the small scope
    let scopes = if thorough {
        vec![
            Scope::new(3, 3, 3, Order::Sets, 0, 0),
            Scope::new(2, 4, 3, Order::SetsBothWays, 0, 0),
            Scope::new(4, 2, 2, Order::AllOrders, 0, 0),
        ]
    } else {
        vec![
            Scope::new(2, 3, 3, Order::SetsBothWays, 0, 0),
            Scope::new(4, 2, 2, Order::Sets, 0, 0),
        ]
    };
    for scope in &scopes {
        let a = e2::run_scope(scope, &cembs, |ctx, acc| {
            for kind in Kind::ALL {
                for nfb in [Some(1), None] {
                    c08_pair(prop, &ctx.pats, kind, nfb, None, &json!({}), acc);
                }
            }
        });
        acc.merge(a);
        bounds.push(format!("E4 char-vs-byte {} x {} char embeddings x 3 kinds x nfb {{1,default}}", scope.name(), cembs.len()));
    }
    // E4 on the char-wise families
    let level = if thorough { 1 } else { 0 };
    let fams = families::char_families(level, util::seed());
    let mut tasks = Vec::new();
    for i in 0..fams.len() {
        for k in Kind::ALL {
            for nfb in [Some(1), None] {
                tasks.push((i, k, nfb));
            }
        }
    }
    let a = par_for(tasks.len(), |ti, acc| {
        let (fi, kind, nfb) = tasks[ti];
        let fam = &fams[fi];
        c08_pair(prop, &fam.pats, kind, nfb, None, &json!({"family": fam.name, "level": level, "seed": util::seed()}), acc);
    });
    acc.merge(a);
    bounds.push(format!("E4 char-vs-byte x {} char families x 3 kinds x nfb {{1,default}}", fams.len()));
    // every Unicode scalar value as label (thorough: all automata of S(2,2,2); quick: a handful)
    let all_scalars: Vec<u32> = (0..=0x10ffffu32).filter(|&c| char::from_u32(c).is_some()).collect();
    let sc = Scope::new(2, 2, if thorough { 2 } else { 1 }, Order::Sets, 0, 0);
    let embs: Vec<_> = if thorough { cembs.clone() } else { cembs.iter().take(2).cloned().collect() };
    let a = e2::run_scope(&sc, &embs, |ctx, acc| {
        for kind in Kind::ALL {
            c08_pair(prop, &ctx.pats, kind, None, Some(&all_scalars), &json!({"labels": "all scalar values"}), acc);
            acc.count("pairs_swept_over_all_1112064_scalars", 1);
        }
    });
    acc.merge(a);
    bounds.push(format!("E4 char-vs-byte over all 1,112,064 scalar values as labels: {} x {} embeddings x 3 kinds", sc.name(), embs.len()));
    // the UTF-8 decoder on (a subset of / all) scalar values: every character found at its offset
    decoder_sweep(thorough, acc);
    bounds.push(format!("decoder sweep: {} scalar values as one-character patterns in groups of 64, all six standard entry points", if thorough { "all 1,112,064" } else { "24 k (dense below U+3000, width boundaries incl. U+D7C0..U+E03F, every 97th group)" }));
    // E2 differential through the public API, all methods, all kinds
    let scopes = if thorough {
        vec![
            Scope::new(3, 3, 3, Order::Sets, 6, 1),
            Scope::new(2, 4, 3, Order::SetsBothWays, 6, 2),
        ]
    } else {
        vec![Scope::new(2, 3, 3, Order::SetsBothWays, 5, 2), Scope::new(2, 4, 3, Order::Sets, 5, 1)]
    };
    for scope in &scopes {
        let a = e2::run_scope(scope, &cembs, |ctx, acc| {
            let mut cfgs = Vec::new();
            for kind in Kind::ALL {
                cfgs.push(Cfg::new(Variant::Char, kind, None, Entry::Builder));
                cfgs.push(Cfg::new(Variant::Char, kind, Some(1), Entry::Builder));
                cfgs.push(Cfg::new(Variant::Byte, kind, None, Entry::Builder));
            }
            e2::sweep_searches(prop, ctx, &cfgs, &|k| Method::for_kind(k).to_vec(), false, acc);
        });
        acc.merge(a);
        bounds.push(format!("E2 differential (char-wise, byte-wise, oracle) {} x {} char embeddings x 3 kinds, all methods", scope.name(), cembs.len()));
    }
}

// ------------------------------------------------------------------------------------------------
// C07

/// Closure of one automaton and of its deserialised image.
fn c07_closure(b: &Built, pats: &[Vec<u8>], origin: &Value, acc: &mut Acc) {
    let prop = "C07";
    e1::check_table(prop, b, pats, origin, acc);
    let rb = b.round_trip();
    e1::check_table(prop, &rb, pats, &e2::with(origin.clone(), "restored", json!(true)), acc);
    acc.count("deserialised_images_explored", 1);
}

/// The UTF-8 decoder under precondition checks: groups of 64 scalar values become 64 one-character
/// patterns; the haystack is their concatenation; every character must be found at its offset with
/// its own value by every char-wise entry point.
fn decoder_sweep(thorough: bool, acc: &mut Acc) {
    let prop = "C07";
    let scalars: Vec<u32> = (0..=0x10ffffu32).filter(|&c| char::from_u32(c).is_some()).collect();
    let groups: Vec<&[u32]> = scalars.chunks(64).collect();
    let pick: Vec<usize> = (0..groups.len())
        .filter(|&g| {
            if thorough {
                return true;
            }
            let lo = groups[g][0];
            lo < 0x3000
                || g % 97 == 0
                || [0xd7c0u32, 0xe000, 0xffc0, 0x10000, 0x10ffc0]
                    .iter()
                    .any(|&b| lo <= b + 64 && b <= lo + 64)
        })
        .collect();
    let a = par_for(pick.len(), |pi, acc| {
        let g = groups[pick[pi]];
        let pats: Vec<Vec<u8>> = g
            .iter()
            .map(|&c| char::from_u32(c).unwrap().to_string().into_bytes())
            .collect();
        let mut hay = Vec::new();
        let mut exp = Vec::new();
        for (i, p) in pats.iter().enumerate() {
            let s = hay.len();
            hay.extend_from_slice(p);
            exp.push((s, hay.len(), i as u64));
        }
        // a trailing unmapped character on both sides of the table end
        hay.extend_from_slice("z\u{10ffff}".as_bytes());
        let cfg = Cfg::new(Variant::Char, Kind::Std, None, Entry::Builder);
        let origin = json!({"variant": "charwise", "kind": "standard", "nfb": null, "entry": "builder",
            "decoder_group_first": g[0], "decoder_group_last": g[g.len()-1]});
        set_case(prop, "enum", e2::case_json(&cfg, &pats, None));
        util::set_hay(&util::my_slot(), &hay);
        let Some(b) = e2::build_or_violate(prop, "enum", cfg, &pats, None, acc) else {
            return;
        };
        let occ = crate::oracle::occurrences(&pats, &hay);
        for m in Method::STD {
            acc.traces += 1;
            if let Err((e, gt, note)) = e2::judge(&b, &pats, &occ, &hay, m) {
                e2::report_mismatch("C08", "enum", &b, &pats, &hay, m, &e, &gt,
                    &format!("{note} [decoder sweep U+{:04X}..U+{:04X}]", g[0], g[g.len() - 1]), acc);
            }
        }
        let _ = &exp;
        acc.evals += g.len() as u64;
        acc.count("scalar_values_decoded_under_ub_checks", g.len() as u64);
        if g[0] >= 0x80 {
            acc.nontrivial += g.len() as u64;
        }
        let _ = origin;
    });
    acc.merge(a);
    // leftmost iterator: slices the haystack at its own resume offset
    let bound: Vec<u32> = vec![0x0, 0x7f, 0x80, 0x7ff, 0x800, 0xd7ff, 0xe000, 0xffff, 0x10000, 0x10ffff, 0x61, 0x4e16];
    let n = bound.len();
    let a = par_for(n * n, |ti, acc| {
        let (i, j) = (ti / n, ti % n);
        if i == j {
            return;
        }
        let ci = char::from_u32(bound[i]).unwrap();
        let cj = char::from_u32(bound[j]).unwrap();
        let pats: Vec<Vec<u8>> = vec![
            ci.to_string().into_bytes(),
            format!("{ci}{cj}").into_bytes(),
            format!("{cj}{cj}{ci}").into_bytes(),
        ];
        for kind in [Kind::LL, Kind::LF, Kind::Std] {
            let cfg = Cfg::new(Variant::Char, kind, None, Entry::Builder);
            set_case(prop, "enum", e2::case_json(&cfg, &pats, None));
            let Some(b) = e2::build_or_violate(prop, "enum", cfg, &pats, None, acc) else {
                continue;
            };
            // all sequences of <= 3 over the 12 boundary code points
            let slot = util::my_slot();
            let mut idx = vec![0usize; 0];
            loop {
                let hay: Vec<u8> = idx
                    .iter()
                    .flat_map(|&k| char::from_u32(bound[k]).unwrap().to_string().into_bytes())
                    .collect();
                util::set_hay(&slot, &hay);
                let occ = crate::oracle::occurrences(&pats, &hay);
                for &m in Method::for_kind(kind) {
                    acc.traces += 1;
                    if let Err((e, g, note)) = e2::judge(&b, &pats, &occ, &hay, m) {
                        e2::report_mismatch("C08", "enum", &b, &pats, &hay, m, &e, &g, &note, acc);
                    }
                }
                acc.evals += 1;
                // next sequence
                let mut k = idx.len();
                loop {
                    if k == 0 {
                        idx = vec![0; idx.len() + 1];
                        break;
                    }
                    k -= 1;
                    if idx[k] + 1 < n {
                        idx[k] += 1;
                        for x in idx.iter_mut().skip(k + 1) {
                            *x = 0;
                        }
                        break;
                    }
                }
                if idx.len() > 3 || util::stopped() {
                    break;
                }
            }
        }
    });
    acc.merge(a);
}

pub fn c07(tier: &str, acc: &mut Acc, bounds: &mut Vec<String>) {
    let prop = "C07";
    let thorough = tier_is_thorough(tier);
    let level = if thorough { 1 } else { 0 };
    let nfbs = families::nfb_values(level);
    let a = pop::for_population(prop, level, &Kind::ALL, &nfbs, |item, acc| {
        c07_closure(&item.built, &item.fam.pats, &item.origin, acc);
    });
    acc.merge(a);
    bounds.push(format!("closure (E1) population level {level} x 3 kinds x {} nfb values, built + deserialised", nfbs.len()));
    // closure on the small scope
    let scope = if thorough { Scope::new(3, 3, 3, Order::Sets, 0, 0) } else { Scope::new(2, 3, 3, Order::Sets, 0, 0) };
    for (variant, embs) in [
        (Variant::Byte, enumr::byte_embeddings(util::seed())),
        (Variant::Char, enumr::char_embeddings()),
    ] {
        let a = e2::run_scope(&scope, &embs, |ctx, acc| {
            for kind in Kind::ALL {
                for nfb in [Some(1), None] {
                    let cfg = Cfg::new(variant, kind, nfb, Entry::Builder);
                    let origin = e2::case_json(&cfg, &ctx.pats, None);
                    set_case(prop, "table", origin.clone());
                    if let Some(b) = e2::build_or_violate(prop, "table", cfg, &ctx.pats, None, acc) {
                        c07_closure(&b, &ctx.pats, &origin, acc);
                    }
                }
            }
        });
        acc.merge(a);
    }
    bounds.push(format!("closure (E1) every automaton of {} x all embeddings x 3 kinds x nfb {{1,default}}, built + deserialised", scope.name()));
    // leftmost-first in every registration order over three / four letters: patterns that are skipped
    // (an earlier-registered pattern is their proper prefix) still contribute characters to the code
    // mapper; the table must be wide enough for those codes as well
    let lf_scope = if thorough { Scope::new(4, 2, 3, Order::AllOrders, 4, 0) } else { Scope::new(3, 2, 3, Order::AllOrders, 4, 1) };
    for (variant, embs) in [
        (Variant::Byte, enumr::byte_embeddings(util::seed()).into_iter().take(2).collect::<Vec<_>>()),
        (Variant::Char, enumr::char_embeddings()),
    ] {
        let a = e2::run_scope(&lf_scope, &embs, |ctx, acc| {
            let mut cfgs = Vec::new();
            for nfb in [Some(1), None] {
                let cfg = Cfg::new(variant, Kind::LF, nfb, Entry::Builder);
                cfgs.push(cfg);
                let origin = e2::case_json(&cfg, &ctx.pats, None);
                set_case(prop, "table", origin.clone());
                if let Some(b) = e2::build_or_violate(prop, "table", cfg, &ctx.pats, None, acc) {
                    c07_closure(&b, &ctx.pats, &origin, acc);
                }
            }
            e2::sweep_searches(prop, ctx, &cfgs, &|k| Method::for_kind(k).to_vec(), false, acc);
        });
        acc.merge(a);
    }
    bounds.push(format!("leftmost-first, all registration orders: closure + E2 under precondition checks on {} x byte[2] + all char embeddings x nfb {{1,default}}", lf_scope.name()));
    // decoder
    decoder_sweep(thorough, acc);
    bounds.push(format!("UTF-8 decoder under precondition checks: {} scalar values; all sequences of <= 3 over 12 boundary code points x 132 pattern triples x 3 kinds",
        if thorough { "all 1,112,064" } else { "a subset (dense below U+3000, width boundaries, every 97th group) of the" }));
    // executions under UB checks: all kinds, all methods, both variants, built and restored
    let scopes = if thorough {
        vec![Scope::new(2, 4, 3, Order::Sets, 6, 1), Scope::new(3, 2, 3, Order::Sets, 5, 1)]
    } else {
        vec![Scope::new(2, 3, 3, Order::Sets, 5, 1)]
    };
    for scope in &scopes {
        for (variant, embs) in [
            (Variant::Byte, enumr::byte_embeddings(util::seed())),
            (Variant::Char, enumr::char_embeddings()),
        ] {
            let a = e2::run_scope(scope, &embs, |ctx, acc| {
                let mut cfgs = Vec::new();
                for kind in Kind::ALL {
                    cfgs.push(Cfg::new(variant, kind, None, Entry::Builder));
                    cfgs.push(Cfg::new(variant, kind, Some(1), Entry::Builder));
                }
                e2::sweep_searches(prop, ctx, &cfgs, &|k| Method::for_kind(k).to_vec(), false, acc);
            });
            acc.merge(a);
        }
        bounds.push(format!("E2 under std's unsafe-precondition checks {} x all embeddings x 3 kinds, all methods", scope.name()));
    }
}

// ------------------------------------------------------------------------------------------------
// C09

/// Parses the documented byte layout independently and compares with the hook's raw copy.
pub fn parse_image(variant: Variant, bytes: &[u8], raw: &daachorse::verif::RawAutomaton<u32>) -> Result<(), String> {
    let mut p = 0usize;
    let mut u32_at = |p: &mut usize| -> Result<u32, String> {
        let b = bytes.get(*p..*p + 4).ok_or("image too short")?;
        *p += 4;
        Ok(u32::from_le_bytes([b[0], b[1], b[2], b[3]]))
    };
    let n = u32_at(&mut p)? as usize;
    if n != raw.states.len() {
        return Err(format!("state count {} vs {}", n, raw.states.len()));
    }
    for (i, s) in raw.states.iter().enumerate() {
        let base = u32_at(&mut p)?;
        let (check, fail, opos) = if variant == Variant::Byte {
            let fail = u32_at(&mut p)?;
            let oc = u32_at(&mut p)?;
            (oc & 0xff, fail, oc >> 8)
        } else {
            let check = u32_at(&mut p)?;
            let fail = u32_at(&mut p)?;
            let opos = u32_at(&mut p)?;
            (check, fail, opos)
        };
        if (base, check, fail, opos) != (s.base, s.check, s.fail, s.output_pos) {
            return Err(format!("state {i} differs between image and table"));
        }
    }
    if variant == Variant::Char {
        let tl = u32_at(&mut p)? as usize;
        if tl != raw.mapper_table.len() {
            return Err("mapper table length differs".into());
        }
        for (i, &c) in raw.mapper_table.iter().enumerate() {
            if u32_at(&mut p)? != c {
                return Err(format!("mapper entry {i} differs"));
            }
        }
        if u32_at(&mut p)? != raw.alphabet_size {
            return Err("alphabet size differs".into());
        }
    }
    let no = u32_at(&mut p)? as usize;
    if no != raw.outputs.len() {
        return Err("output count differs".into());
    }
    for (i, o) in raw.outputs.iter().enumerate() {
        let v = u32_at(&mut p)?;
        let l = u32_at(&mut p)?;
        let par = u32_at(&mut p)?;
        if (v, l, par) != (o.value, o.length, o.parent) {
            return Err(format!("output {i} differs"));
        }
    }
    let k = *bytes.get(p).ok_or("image too short")?;
    p += 1;
    if k != raw.match_kind {
        return Err("match kind byte differs".into());
    }
    if u32_at(&mut p)? != raw.num_states {
        return Err("num_states differs".into());
    }
    if p != bytes.len() {
        return Err(format!("{} trailing bytes in the image", bytes.len() - p));
    }
    Ok(())
}

pub fn c09_one(b: &Built, pats: &[Vec<u8>], origin: &Value, deep: bool, acc: &mut Acc) {
    let prop = "C09";
    let bytes = b.auto.serialize();
    acc.evals += 1;
    if b.cfg.kind != Kind::Std || b.cfg.variant == Variant::Char {
        acc.nontrivial += 1;
    }
    let raw = b.auto.raw();
    // informational only: the property does not fix the byte layout (a format change is legitimate
    // as long as the round trip holds), so a difference to the layout read from the anchors is
    // counted, not alarmed
    if raw.match_kind != b.cfg.kind.byte() || parse_image(b.cfg.variant, &bytes, &raw).is_err() {
        acc.count("image_layout_differs_from_anchor_description", 1);
    }
    let tails: [&[u8]; 4] = [&[], &[0], &[0xff, 0xff, 0xff], &bytes[..bytes.len().min(7)]];
    for (ti, tail) in tails.iter().enumerate() {
        let mut src = bytes.clone();
        src.extend_from_slice(tail);
        let rt = std::panic::catch_unwind(std::panic::AssertUnwindSafe(|| Auto::deserialize(b.cfg.variant, &src)));
        acc.traces += 1;
        let (r, off, rest) = match rt {
            Ok(x) => x,
            Err(_) => {
                let msg = util::take_last_panic().unwrap_or_default();
                acc.violate(prop, "roundtrip", format!("deserialize_unchecked panicked on the bytes produced by serialize: {msg}"),
                    e2::with(origin.clone(), "tail", json!(hex(tail))));
                return;
            }
        };
        if off != bytes.len() || rest != tail.len() {
            acc.violate(prop, "roundtrip",
                format!("deserialize consumed {off} of {} bytes and returned a remainder of {rest} bytes (tail of {} given)", bytes.len(), tail.len()),
                e2::with(origin.clone(), "tail", json!(hex(tail))));
            continue;
        }
        if !r.same(&b.auto) {
            acc.violate(prop, "roundtrip", "restored automaton != original".into(), e2::with(origin.clone(), "tail", json!(hex(tail))));
            continue;
        }
        let again = r.serialize();
        if again != bytes {
            acc.violate(prop, "roundtrip", "serialize(restored) differs from the original bytes".into(), e2::with(origin.clone(), "tail", json!(hex(tail))));
            continue;
        }
        if ti == 0 || deep {
            // behaviour: complete product exploration original vs restored
            let labels = if deep || ti == 0 { all_labels(&b.auto) } else { vec![] };
            let o = e2::with(origin.clone(), "other", json!("restored"));
            bisim_or_violate(prop, "original vs restored automaton", &b.auto, &r, b.cfg.kind, &labels, false, &o, acc);
            // the match kind is observable: the restored automaton accepts the same methods
            for m in Method::for_kind(b.cfg.kind) {
                let h: &[u8] = pats.first().map_or(&[], |p| p.as_slice());
                let x = std::panic::catch_unwind(std::panic::AssertUnwindSafe(|| r.run(*m, h)));
                match x {
                    Ok(g) => {
                        if g != b.auto.run(*m, h) {
                            acc.violate(prop, "roundtrip", format!("{} differs after the round trip", m.name()), origin.clone());
                        }
                    }
                    Err(_) => {
                        let _ = util::take_last_panic();
                        acc.violate(prop, "roundtrip", format!("restored automaton rejects {} (match kind changed by the round trip)", m.name()), origin.clone());
                    }
                }
            }
        }
    }
    // the image may start at any address: deserialise it behind 1, 2 and 3 leading bytes
    for lead in 1..=3usize {
        let mut buf = vec![0xa5u8; lead];
        buf.extend_from_slice(&bytes);
        buf.push(0x5a);
        let rt = std::panic::catch_unwind(std::panic::AssertUnwindSafe(|| Auto::deserialize(b.cfg.variant, &buf[lead..])));
        acc.traces += 1;
        match rt {
            Ok((r, off, rest)) => {
                if off != bytes.len() || rest != 1 || !r.same(&b.auto) || r.serialize() != bytes {
                    acc.violate(prop, "roundtrip",
                        format!("deserialising the image from a slice that starts {lead} byte(s) into a buffer does not restore the automaton (consumed {off} of {}, remainder {rest}, equal: {})", bytes.len(), r.same(&b.auto)),
                        e2::with(origin.clone(), "lead", json!(lead)));
                    break;
                }
            }
            Err(_) => {
                let msg = util::take_last_panic().unwrap_or_default();
                acc.violate(prop, "roundtrip", format!("deserialize_unchecked panicked on an image that starts {lead} byte(s) into a buffer: {msg}"), e2::with(origin.clone(), "lead", json!(lead)));
                break;
            }
        }
    }
    acc.sample(|| e2::with(origin.clone(), "image_bytes", json!(bytes.len())));
}

pub fn c09(tier: &str, acc: &mut Acc, bounds: &mut Vec<String>) {
    let prop = "C09";
    let thorough = tier_is_thorough(tier);
    let level = if thorough { 1 } else { 0 };
    let nfbs = if thorough { vec![Some(1), Some(3), None] } else { vec![Some(1), None] };
    let a = pop::for_population(prop, level, &Kind::ALL, &nfbs, |item, acc| {
        c09_one(&item.built, &item.fam.pats, &item.origin, false, acc);
    });
    acc.merge(a);
    bounds.push(format!("round trip x 4 tails + E4 original-vs-restored: population level {level} x 3 kinds x nfb {nfbs:?}"));
    let scope = if thorough { Scope::new(3, 3, 3, Order::SetsBothWays, 5, 1) } else { Scope::new(2, 3, 3, Order::SetsBothWays, 5, 1) };
    for (variant, embs) in [
        (Variant::Byte, enumr::byte_embeddings(util::seed())),
        (Variant::Char, enumr::char_embeddings()),
    ] {
        let a = e2::run_scope(&scope, &embs, |ctx, acc| {
            let mut restored = Vec::new();
            for kind in Kind::ALL {
                for (nfb, entry, vals) in [(None, Entry::Builder, false), (Some(1), Entry::Builder, true)] {
                    let cfg = Cfg::new(variant, kind, nfb, entry);
                    let v: Vec<u32> = (0..ctx.pats.len() as u32).map(|i| u32::MAX - 3 * i).collect();
                    let vv = if vals { Some(v.as_slice()) } else { None };
                    let origin = e2::case_json(&cfg, &ctx.pats, vv);
                    set_case(prop, "roundtrip", origin.clone());
                    if let Some(b) = e2::build_or_violate(prop, "roundtrip", cfg, &ctx.pats, vv, acc) {
                        c09_one(&b, &ctx.pats, &origin, true, acc);
                        restored.push(b.round_trip());
                    }
                }
            }
            // the restored automata answer every search like the oracle
            ctx.for_each_hay(|hay| {
                let occ = crate::oracle::occurrences(&ctx.pats, hay);
                for b in &restored {
                    for &m in Method::for_kind(b.cfg.kind) {
                        acc.traces += 1;
                        if let Err((e, g, note)) = e2::judge(b, &ctx.pats, &occ, hay, m) {
                            e2::report_mismatch(prop, "enum", b, &ctx.pats, hay, m, &e, &g, &format!("{note} [after a serialisation round trip]"), acc);
                        }
                    }
                }
            });
        });
        acc.merge(a);
    }
    bounds.push(format!("round trip + E4 + E2 on restored: every automaton of {} x all embeddings x 3 kinds", scope.name()));
}

pub fn replay_roundtrip(case: &Value) -> bool {
    if case.get("scale_case").is_some() {
        // the scale collections are re-run as a whole (the product exploration of c09_one is out of
        // reach for tables of that size)
        let mut acc = Acc::new();
        let mut b = Vec::new();
        crate::scale::roundtrip("C09", "quick", &mut acc, &mut b);
        return !acc.violations.is_empty();
    }
    let (cfg, pats, vals) = pop::rebuild(case);
    let mut acc = Acc::new();
    let Some(b) = e2::build_or_violate("C09", "roundtrip", cfg, &pats, vals.as_deref(), &mut acc) else {
        return true;
    };
    c09_one(&b, &pats, case, true, &mut acc);
    !acc.violations.is_empty()
}

// ------------------------------------------------------------------------------------------------
// C07: haystack objects whose view changes between calls ("safe callers cannot trigger memory
// unsafety through any safe API"). The slice entry points take `P: AsRef<[u8]>` / `P: AsRef<str>`
// and call `as_ref()` again and again; a safe implementation may answer differently each time. The
// environment's answers are enumerated with one deviation: the object shows view 1 for the first k
// calls and view 2 from then on, for every k.

/// A haystack whose `as_ref()` switches from one view to another after `k` calls.
pub struct Shifty {
    v1: Vec<u8>,
    v2: Vec<u8>,
    k: usize,
    calls: std::cell::Cell<usize>,
}

impl Shifty {
    pub fn new(v1: &[u8], v2: &[u8], k: usize) -> Self {
        Shifty { v1: v1.to_vec(), v2: v2.to_vec(), k, calls: std::cell::Cell::new(0) }
    }
    fn view(&self) -> &[u8] {
        let c = self.calls.get();
        self.calls.set(c + 1);
        if c < self.k {
            &self.v1
        } else {
            &self.v2
        }
    }
    pub fn calls(&self) -> usize {
        self.calls.get()
    }
}
impl AsRef<[u8]> for Shifty {
    fn as_ref(&self) -> &[u8] {
        self.view()
    }
}
impl AsRef<str> for Shifty {
    fn as_ref(&self) -> &str {
        // both views are valid UTF-8 by construction (checked when the universe is built)
        std::str::from_utf8(self.view()).expect("views are valid UTF-8")
    }
}

const SHIFTY_METHODS: [Method; 4] = [Method::Find, Method::Ovl, Method::NoSuf, Method::Lm];

/// One shifty search. Returns the number of `as_ref()` calls the search made. Any result is
/// acceptable (the input is inconsistent); undefined behaviour is caught by the precondition checks
/// (abort -> panic hook -> violation for the declared case), a plain panic is memory safe.
pub fn run_shifty(auto: &Auto, m: Method, sh: &Shifty) -> (usize, bool) {
    let r = std::panic::catch_unwind(std::panic::AssertUnwindSafe(|| {
        util::in_lib(|| {
            let cap = 64 * (sh.v1.len() + sh.v2.len() + 4);
            let mut n = 0usize;
            macro_rules! drain {
                ($it:expr) => {{
                    for _m in $it {
                        n += 1;
                        if n > cap {
                            break;
                        }
                    }
                }};
            }
            match auto {
                Auto::B(a) => match m {
                    Method::Find => drain!(a.find_iter(sh)),
                    Method::Ovl => drain!(a.find_overlapping_iter(sh)),
                    Method::NoSuf => drain!(a.find_overlapping_no_suffix_iter(sh)),
                    _ => drain!(a.leftmost_find_iter(sh)),
                },
                Auto::C(a) => match m {
                    Method::Find => drain!(a.find_iter(sh)),
                    Method::Ovl => drain!(a.find_overlapping_iter(sh)),
                    Method::NoSuf => drain!(a.find_overlapping_no_suffix_iter(sh)),
                    _ => drain!(a.leftmost_find_iter(sh)),
                },
            }
        })
    }));
    if r.is_err() {
        let _ = util::take_last_panic();
    }
    (sh.calls(), r.is_err())
}

fn shifty_words(letters: &[&str], n: usize) -> Vec<Vec<u8>> {
    let mut out: Vec<Vec<u8>> = vec![Vec::new()];
    let mut layer: Vec<String> = vec![String::new()];
    for _ in 0..n {
        let mut next = Vec::new();
        for w in &layer {
            for l in letters {
                next.push(format!("{w}{l}"));
            }
        }
        out.extend(next.iter().map(|w| w.as_bytes().to_vec()));
        layer = next;
    }
    out
}

pub fn c07_shifty(tier: &str, acc: &mut Acc, bounds: &mut Vec<String>) {
    let prop = "C07";
    let thorough = tier_is_thorough(tier);
    // letters of every UTF-8 width; patterns over the same letters
    let letters = ["a", "\u{e9}", "\u{4e16}", "\u{1f600}"];
    let views = shifty_words(&letters, if thorough { 3 } else { 2 });
    let psets: Vec<Vec<&str>> = vec![
        vec!["a", "\u{e9}a", "\u{4e16}\u{e9}"],
        vec!["\u{1f600}", "a\u{1f600}a", "\u{4e16}"],
        vec!["aa", "a\u{4e16}", "\u{4e16}\u{4e16}a", "\u{e9}"],
    ];
    let mut tasks: Vec<(usize, Variant, Kind)> = Vec::new();
    for pi in 0..psets.len() {
        for variant in Variant::ALL {
            for kind in Kind::ALL {
                tasks.push((pi, variant, kind));
            }
        }
    }
    let a = util::par_for(tasks.len(), |ti, acc| {
        let (pi, variant, kind) = tasks[ti];
        let pats: Vec<Vec<u8>> = psets[pi].iter().map(|s| s.as_bytes().to_vec()).collect();
        let cfg = Cfg::new(variant, kind, None, Entry::Builder);
        let mut case = e2::case_json(&cfg, &pats, None);
        case.as_object_mut().unwrap().insert("check".into(), json!("shifty"));
        set_case(prop, "shifty", case);
        let Some(b) = e2::build_or_violate(prop, "shifty", cfg, &pats, None, acc) else {
            return;
        };
        let slot = util::my_slot();
        let mut enc: Vec<u8> = Vec::new();
        for v1 in &views {
            for v2 in &views {
                if v1 == v2 {
                    continue;
                }
                acc.evals += 1;
                for (mi, &m) in SHIFTY_METHODS.iter().enumerate() {
                    if (m == Method::Lm) != (kind != Kind::Std) {
                        continue;
                    }
                    // every switch point: k = 0 .. the number of calls the search makes
                    let mut k = 0usize;
                    loop {
                        enc.clear();
                        enc.extend_from_slice(&[k as u8, mi as u8, v1.len() as u8]);
                        enc.extend_from_slice(v1);
                        enc.extend_from_slice(v2);
                        util::set_hay(&slot, &enc);
                        let sh = Shifty::new(v1, v2, k);
                        let (calls, panicked) = run_shifty(&b.auto, m, &sh);
                        acc.traces += 1;
                        if panicked {
                            acc.count("shifty_safe_panics", 1);
                        }
                        if calls > k {
                            acc.nontrivial += 1;
                        }
                        k += 1;
                        if k > calls || k > 200 {
                            break;
                        }
                    }
                }
            }
        }
    });
    acc.merge(a);
    bounds.push(format!("inconsistent haystack objects (AsRef answers change once, at every possible call): {} views of <= {} characters over 4 letters of UTF-8 width 1-4, every ordered pair x every switch point x 3 pattern sets x both variants x 3 kinds x the slice entry points, under precondition checks", views.len(), if thorough { 3 } else { 2 }));
}

pub fn replay_shifty(case: &Value) -> bool {
    let cfg = Cfg::from_json(case);
    let pats: Vec<Vec<u8>> = case["patterns"].as_array().unwrap().iter().map(|p| util::unhex(p.as_str().unwrap())).collect();
    let enc = util::unhex(case["haystack"].as_str().unwrap_or(""));
    if enc.len() < 3 {
        println!("replay: no shifty parameters recorded");
        return false;
    }
    let (k, mi, l1) = (enc[0] as usize, enc[1] as usize, enc[2] as usize);
    let v1 = &enc[3..3 + l1];
    let v2 = &enc[3 + l1..];
    let mut acc = Acc::new();
    let Some(b) = e2::build_or_violate("C07", "shifty", cfg, &pats, None, &mut acc) else {
        return true;
    };
    println!("replay: {} on a haystack object that shows {:?} for the first {k} as_ref() calls and {:?} afterwards", SHIFTY_METHODS[mi].name(), String::from_utf8_lossy(v1), String::from_utf8_lossy(v2));
    set_case("C07", "shifty", case.clone());
    util::set_hay(&util::my_slot(), &enc);
    let sh = Shifty::new(v1, v2, k);
    let (calls, panicked) = run_shifty(&b.auto, SHIFTY_METHODS[mi], &sh);
    println!("replay: completed without undefined behaviour ({calls} as_ref() calls, safe panic: {panicked})");
    false
}

//! Compositions for C10 (construction validity), C12 (lazy byte sources), C14 (determinism,
//! order independence, purity).

use crate::auto::{Auto, Cfg, Entry, ErrKind, Kind, Method, Variant, M};
use crate::e2::{self, Built, Scope};
use crate::enumr::{self, Order};
use crate::pop;
use crate::props::tier_is_thorough;
use crate::util::{self, hex, par_for, set_case, Acc};
use daachorse::errors::DaachorseError;
use daachorse::{
    CharwiseDoubleArrayAhoCorasickBuilder as CBld, DoubleArrayAhoCorasickBuilder as BBld,
};
use serde_json::{json, Value};
use std::panic::{catch_unwind, AssertUnwindSafe};

// ------------------------------------------------------------------------------------------------
// C10

#[derive(Clone, Copy, Debug, PartialEq, Eq)]
pub enum VT {
    U8,
    I8,
    U32,
}
impl VT {
    pub fn name(self) -> &'static str {
        match self {
            VT::U8 => "u8",
            VT::I8 => "i8",
            VT::U32 => "u32",
        }
    }
    pub fn parse(s: &str) -> VT {
        match s {
            "u8" => VT::U8,
            "i8" => VT::I8,
            _ => VT::U32,
        }
    }
    pub fn max_index(self) -> usize {
        match self {
            VT::U8 => 255,
            VT::I8 => 127,
            VT::U32 => u32::MAX as usize,
        }
    }
}

/// How the collection is handed to the builder: the property is about the collection the iterator
/// yields, whatever its size hint says.
#[derive(Clone, Copy, Debug, PartialEq, Eq)]
pub enum Shape {
    /// a slice / Vec (exact size hint)
    Exact,
    /// a filtered iterator over a longer source: the upper bound of its size hint over-estimates
    Filtered,
    /// an iterator without any size information
    Unsized,
}
impl Shape {
    pub fn name(self) -> &'static str {
        match self {
            Shape::Exact => "exact",
            Shape::Filtered => "filtered",
            Shape::Unsized => "unsized",
        }
    }
    pub fn parse(s: &str) -> Shape {
        match s {
            "filtered" => Shape::Filtered,
            "unsized" => Shape::Unsized,
            _ => Shape::Exact,
        }
    }
}

/// Wraps the items of a Vec into an iterator of the requested shape.
fn shaped<'a, T: Clone + 'a>(items: Vec<T>, shape: Shape) -> Box<dyn Iterator<Item = T> + 'a> {
    match shape {
        Shape::Exact => Box::new(items.into_iter()),
        Shape::Filtered => {
            // 400 decoys in front and behind that the filter drops: size_hint() = (0, Some(n + 800))
            let n = items.len();
            let mut src: Vec<Option<T>> = vec![None; 400];
            src.extend(items.into_iter().map(Some));
            src.extend(std::iter::repeat_with(|| None).take(400));
            let _ = n;
            Box::new(src.into_iter().flatten())
        }
        Shape::Unsized => {
            let mut it = items.into_iter();
            Box::new(std::iter::from_fn(move || it.next()))
        }
    }
}

fn build_typed<V: Copy + TryFrom<usize>>(cfg: Cfg, pats: &[Vec<u8>], with_values: bool, shape: Shape) -> Result<(), DaachorseError> {
    util::in_lib(|| match cfg.variant {
        Variant::Byte => {
            if cfg.entry == Entry::Assoc {
                if with_values {
                    let pv: Vec<(&Vec<u8>, V)> = pats.iter().map(|p| (p, V::try_from(0).ok().unwrap())).collect();
                    daachorse::DoubleArrayAhoCorasick::<V>::with_values(shaped(pv, shape)).map(|_| ())
                } else {
                    daachorse::DoubleArrayAhoCorasick::<V>::new(shaped(pats.iter().collect(), shape)).map(|_| ())
                }
            } else {
                let mut b = BBld::new().match_kind(cfg.kind.mk());
                if let Some(n) = cfg.nfb {
                    b = b.num_free_blocks(n);
                }
                if with_values {
                    let pv: Vec<(&Vec<u8>, V)> = pats.iter().map(|p| (p, V::try_from(0).ok().unwrap())).collect();
                    b.build_with_values::<_, _, V>(shaped(pv, shape)).map(|_| ())
                } else {
                    b.build::<_, _, V>(shaped(pats.iter().collect::<Vec<_>>(), shape)).map(|_| ())
                }
            }
        }
        Variant::Char => {
            let sp: Vec<&str> = pats.iter().map(|p| std::str::from_utf8(p).unwrap()).collect();
            if cfg.entry == Entry::Assoc {
                if with_values {
                    let pv: Vec<(&str, V)> = sp.iter().map(|p| (*p, V::try_from(0).ok().unwrap())).collect();
                    daachorse::CharwiseDoubleArrayAhoCorasick::<V>::with_values(shaped(pv, shape)).map(|_| ())
                } else {
                    daachorse::CharwiseDoubleArrayAhoCorasick::<V>::new(shaped(sp, shape)).map(|_| ())
                }
            } else {
                let mut b = CBld::new().match_kind(cfg.kind.mk());
                if let Some(n) = cfg.nfb {
                    b = b.num_free_blocks(n);
                }
                if with_values {
                    let pv: Vec<(&str, V)> = sp.iter().map(|p| (*p, V::try_from(0).ok().unwrap())).collect();
                    b.build_with_values::<_, _, V>(shaped(pv, shape)).map(|_| ())
                } else {
                    b.build::<_, _, V>(shaped(sp, shape)).map(|_| ())
                }
            }
        }
    })
}

/// Oracle + comparison for one collection. Returns a description of the deviation, if any.
pub fn c10_judge(cfg: Cfg, vt: VT, with_values: bool, shape: Shape, pats: &[Vec<u8>]) -> Result<(), String> {
    let empty_set = pats.is_empty();
    let empty_pat = pats.iter().any(Vec::is_empty);
    let dup = (0..pats.len()).any(|i| pats[..i].contains(&pats[i]));
    let conv = !with_values && pats.len() > vt.max_index() + 1;
    let valid = !(empty_set || empty_pat || dup || conv);
    let r = catch_unwind(AssertUnwindSafe(|| match vt {
        VT::U8 => build_typed::<u8>(cfg, pats, with_values, shape),
        VT::I8 => build_typed::<i8>(cfg, pats, with_values, shape),
        VT::U32 => build_typed::<u32>(cfg, pats, with_values, shape),
    }));
    match r {
        Err(_) => Err(format!(
            "construction panicked: {}",
            util::take_last_panic().unwrap_or_default()
        )),
        Ok(Ok(())) => {
            if valid {
                Ok(())
            } else {
                Err(format!(
                    "invalid collection accepted (empty collection: {empty_set}, empty pattern: {empty_pat}, duplicate: {dup}, index overflow: {conv})"
                ))
            }
        }
        Ok(Err(e)) => {
            let k = ErrKind::of(&e);
            if valid {
                return Err(format!("valid collection rejected with {e}"));
            }
            // the error kind must name a defect that is present
            let ok = match k {
                ErrKind::InvalidArgument => empty_set || empty_pat,
                ErrKind::DuplicatePattern => dup,
                ErrKind::InvalidConversion => conv,
                ErrKind::AutomatonScale => false,
            };
            if ok {
                Ok(())
            } else {
                Err(format!(
                    "error kind {} names no defect of the collection (empty collection: {empty_set}, empty pattern: {empty_pat}, duplicate: {dup}, index overflow: {conv})",
                    k.name()
                ))
            }
        }
    }
}

fn c10_case(cfg: &Cfg, vt: VT, with_values: bool, shape: Shape, pats: &[Vec<u8>]) -> Value {
    let mut c = e2::case_json(cfg, pats, None);
    let m = c.as_object_mut().unwrap();
    m.insert("value_type".into(), json!(vt.name()));
    m.insert("iterator_shape".into(), json!(shape.name()));
    m.insert("with_values".into(), json!(with_values));
    c
}

fn c10_cfgs(thorough: bool) -> Vec<(Cfg, VT, bool, Shape)> {
    let mut v = Vec::new();
    for variant in Variant::ALL {
        for kind in Kind::ALL {
            for (vt, wv) in [(VT::U32, false), (VT::U32, true), (VT::U8, false), (VT::I8, false), (VT::U8, true)] {
                if !thorough && vt != VT::U32 && kind == Kind::LL {
                    continue;
                }
                v.push((Cfg::new(variant, kind, None, Entry::Builder), vt, wv, Shape::Exact));
                if vt == VT::U32 && !wv {
                    v.push((Cfg::new(variant, kind, Some(1), Entry::Builder), vt, wv, Shape::Exact));
                }
                if !wv && vt != VT::U32 && (thorough || kind == Kind::Std) {
                    // narrow value types fed from iterators whose size hint is loose or absent
                    v.push((Cfg::new(variant, kind, None, Entry::Builder), vt, wv, Shape::Filtered));
                    v.push((Cfg::new(variant, kind, None, Entry::Builder), vt, wv, Shape::Unsized));
                }
            }
        }
        v.push((Cfg::new(variant, Kind::Std, None, Entry::Assoc), VT::U32, false, Shape::Exact));
        v.push((Cfg::new(variant, Kind::Std, None, Entry::Assoc), VT::U32, true, Shape::Filtered));
        v.push((Cfg::new(variant, Kind::Std, None, Entry::Assoc), VT::U8, false, Shape::Filtered));
        v.push((Cfg::new(variant, Kind::Std, None, Entry::Assoc), VT::I8, false, Shape::Unsized));
    }
    v
}

pub fn c10(tier: &str, acc: &mut Acc, bounds: &mut Vec<String>) {
    let prop = "C10";
    let thorough = tier_is_thorough(tier);
    let cfgs = c10_cfgs(thorough);
    let embs = [
        enumr::Emb::bytes("ascii", b"ab"),
        enumr::Emb::bytes("edge", &[0x00, 0xff]),
        enumr::Emb::chars("mixed", &[0x61, 0x4e16]),
    ];
    // two sweeps: short strings / longer sequences, and strings up to length 3 (nested prefix chains)
    let mut sweeps: Vec<(Vec<Vec<u8>>, usize)> = Vec::new();
    let mut s2: Vec<Vec<u8>> = vec![vec![]];
    s2.extend(enumr::universe(2, 2));
    sweeps.push((s2, if thorough { 5 } else { 4 }));
    let mut s3: Vec<Vec<u8>> = vec![vec![]];
    s3.extend(enumr::universe(2, 3));
    sweeps.push((s3, if thorough { 4 } else { 3 }));
    for (strs, kmax) in sweeps {
    let ns = strs.len();
    // tasks: first two elements of the sequence (or shorter sequences)
    let mut tasks: Vec<Vec<usize>> = vec![vec![]];
    for i in 0..ns {
        tasks.push(vec![i]);
        for j in 0..ns {
            tasks.push(vec![i, j]);
        }
    }
    let a = par_for(tasks.len(), |ti, acc| {
        let t = &tasks[ti];
        let mut stack: Vec<Vec<usize>> = vec![t.clone()];
        while let Some(seq) = stack.pop() {
            if util::stopped() {
                return;
            }
            for emb in &embs {
                let pats: Vec<Vec<u8>> = seq.iter().map(|&i| emb.mapped(&strs[i])).collect();
                for (cfg, vt, wv, shape) in &cfgs {
                    if cfg.variant == Variant::Char && !emb.utf8 {
                        continue;
                    }
                    set_case(prop, "collections", c10_case(cfg, *vt, *wv, *shape, &pats));
                    acc.evals += 1;
                    let invalid = pats.is_empty() || pats.iter().any(Vec::is_empty) || (0..pats.len()).any(|i| pats[..i].contains(&pats[i]));
                    if invalid {
                        acc.nontrivial += 1;
                    }
                    match c10_judge(*cfg, *vt, *wv, *shape, &pats) {
                        Ok(()) => {
                            acc.traces += 1;
                            if invalid && pats.len() >= 3 {
                                acc.nt_sample(|| e2::with(c10_case(cfg, *vt, *wv, *shape, &pats), "result", json!("rejected with a matching error kind")));
                            }
                        }
                        Err(w) => acc.violate(prop, "collections", format!("{w}: patterns {} [{} {} {} {} values={} iterator={}]", e2::show_pats(&pats), cfg.variant.name(), cfg.kind.name(), cfg.entry.name(), vt.name(), wv, shape.name()), c10_case(cfg, *vt, *wv, *shape, &pats)),
                    }
                }
            }
            if seq.len() >= 2 && seq.len() < kmax {
                for i in 0..ns {
                    let mut s2 = seq.clone();
                    s2.push(i);
                    stack.push(s2);
                }
            }
        }
    });
    acc.merge(a);
    bounds.push(format!("all sequences of <= {kmax} strings from {{empty}} + {} strings x 3 embeddings x {} configurations", ns - 1, cfgs.len()));
    }
    // defect insertion into a 6-pattern base collection, every position
    let base: Vec<Vec<u8>> = ["ab", "abc", "b", "bcd", "a", "cab"].iter().map(|s| s.as_bytes().to_vec()).collect();
    let mut a2 = Acc::new();
    for pos in 0..=base.len() {
        for defect in 0..base.len() + 1 {
            let mut pats = base.clone();
            let ins = if defect == base.len() { vec![] } else { base[defect].clone() };
            pats.insert(pos, ins);
            for (cfg, vt, wv, shape) in &cfgs {
                set_case(prop, "collections", c10_case(cfg, *vt, *wv, *shape, &pats));
                a2.evals += 1;
                a2.nontrivial += 1;
                match c10_judge(*cfg, *vt, *wv, *shape, &pats) {
                    Ok(()) => a2.traces += 1,
                    Err(w) => a2.violate(prop, "collections", format!("{w}: patterns {}", e2::show_pats(&pats)), c10_case(cfg, *vt, *wv, *shape, &pats)),
                }
            }
        }
    }
    acc.merge(a2);
    bounds.push("6-pattern base collection with a repeat of each pattern or an empty pattern inserted at each position".into());
    // index-conversion boundary
    let mut a3 = Acc::new();
    for (vt, ns) in [(VT::U8, [255usize, 256, 257]), (VT::I8, [127, 128, 129])] {
        for n in ns {
            for variant in Variant::ALL {
                let pats: Vec<Vec<u8>> = (0..n)
                    .map(|i| char::from_u32(0x100 + i as u32).unwrap().to_string().into_bytes())
                    .collect();
                for kind in Kind::ALL {
                    for (wv, shape) in [(false, Shape::Exact), (true, Shape::Exact), (false, Shape::Filtered), (false, Shape::Unsized)] {
                        let cfg = Cfg::new(variant, kind, None, Entry::Builder);
                        set_case(prop, "collections", c10_case(&cfg, vt, wv, shape, &pats));
                        a3.evals += 1;
                        a3.nontrivial += 1;
                        match c10_judge(cfg, vt, wv, shape, &pats) {
                            Ok(()) => a3.traces += 1,
                            Err(w) => a3.violate(prop, "collections", format!("{w}: {n} one-character patterns, value type {}, iterator shape {}", vt.name(), shape.name()), c10_case(&cfg, vt, wv, shape, &pats)),
                        }
                    }
                }
            }
        }
    }
    acc.merge(a3);
    bounds.push("index conversion boundary: 255/256/257 patterns for u8, 127/128/129 for i8".into());
    // valid large inputs never trip a builder assertion
    let level = if thorough { 1 } else { 0 };
    let a4 = pop::for_population(prop, level, &Kind::ALL, &crate::families::nfb_values(level), |_item, acc| {
        acc.evals += 1;
        acc.traces += 1;
    });
    acc.merge(a4);
    bounds.push(format!("population level {level}: every family x 3 kinds x nfb values builds without panic or error"));
    // every class of character is a valid pattern character: the UTF-8 width boundaries, the
    // neighbours of the surrogate gap and the first / last code point of every plane, alone and
    // next to an ASCII letter, in one collection per code point and all together
    let mut cps: Vec<u32> = vec![0x00, 0x01, 0x7f, 0x80, 0xff, 0x100, 0x7ff, 0x800, 0xd7ff, 0xe000, 0xfffd, 0xfffe, 0xffff];
    for plane in 1..=16u32 {
        cps.push(plane << 16);
        cps.push((plane << 16) | 0xffff);
    }
    let mut a5 = Acc::new();
    let mut all: Vec<Vec<u8>> = Vec::new();
    let mut colls: Vec<Vec<Vec<u8>>> = Vec::new();
    for &cp in &cps {
        let c = char::from_u32(cp).unwrap();
        let coll: Vec<Vec<u8>> = vec![c.to_string().into_bytes(), format!("a{c}").into_bytes(), format!("{c}{c}b").into_bytes()];
        all.extend(coll.iter().cloned());
        colls.push(coll);
    }
    colls.push(all);
    for coll in &colls {
        for variant in Variant::ALL {
            for kind in Kind::ALL {
                for nfb in [None, Some(1)] {
                    let cfg = Cfg::new(variant, kind, nfb, Entry::Builder);
                    set_case(prop, "collections", e2::case_json(&cfg, coll, None));
                    a5.evals += 1;
                    a5.nontrivial += 1;
                    a5.traces += 1;
                    let _ = e2::build_or_violate(prop, "collections", cfg, coll, None, &mut a5);
                }
            }
        }
    }
    acc.merge(a5);
    bounds.push(format!("character classes: {} boundary code points (UTF-8 width boundaries, surrogate-gap neighbours, first and last code point of every plane) as pattern characters x both variants x 3 kinds x nfb {{1,default}}", cps.len()));
}

pub fn replay_collections(case: &Value) -> bool {
    let cfg = Cfg::from_json(case);
    let pats: Vec<Vec<u8>> = case["patterns"].as_array().unwrap().iter().map(|p| util::unhex(p.as_str().unwrap())).collect();
    let vt = VT::parse(case["value_type"].as_str().unwrap_or("u32"));
    let wv = case["with_values"].as_bool().unwrap_or(false);
    let shape = Shape::parse(case["iterator_shape"].as_str().unwrap_or("exact"));
    match c10_judge(cfg, vt, wv, shape, &pats) {
        Ok(()) => {
            println!("replay: construction behaves as specified");
            false
        }
        Err(w) => {
            println!("replay: {w}");
            true
        }
    }
}

// ------------------------------------------------------------------------------------------------
// C12

pub fn c12_case(b: &Built, pats: &[Vec<u8>], hay: &[u8], m: Method, acc: &mut Acc) {
    let prop = "C12";
    let slice_m = match m {
        Method::FindIt => Method::Find,
        Method::OvlIt => Method::Ovl,
        _ => Method::NoSuf,
    };
    let expected = b.auto.run(slice_m, hay);
    let hist = b.auto.run_counting(m, hay);
    acc.traces += 1;
    // a source that knows its length (exact size_hint) must give the same matches as well
    let sized = b.auto.run(m, hay);
    if sized != expected {
        let mut c = e2::case_json(&b.cfg, pats, None);
        let o = c.as_object_mut().unwrap();
        o.insert("haystack".into(), json!(hex(hay)));
        o.insert("method".into(), json!(m.name()));
        acc.violate(prop, "lazy", format!("{} fed from a source with an exact size hint yields {:?}, {} yields {:?} [{} patterns {} haystack {:?}]",
            m.name(), sized, slice_m.name(), expected, b.cfg.variant.name(), e2::show_pats(pats), e2::show(hay)), c);
        return;
    }
    let got: Vec<M> = hist.iter().filter_map(|h| h.0).collect();
    let mut bad: Option<String> = None;
    if got != expected {
        bad = Some(format!("{} yields {:?}, {} yields {:?}", m.name(), got, slice_m.name(), expected));
    } else {
        for (i, (r, pulled)) in hist.iter().enumerate() {
            match r {
                Some((_, e, _)) => {
                    if pulled != e {
                        bad = Some(format!("call #{i} of {} returned a match ending at {e} after pulling {pulled} bytes from the source", m.name()));
                        break;
                    }
                }
                None => {
                    if *pulled != hay.len() {
                        bad = Some(format!("{} returned None after pulling {pulled} of {} bytes", m.name(), hay.len()));
                        break;
                    }
                }
            }
        }
    }
    if bad.is_none() {
        // a segmented source: it answers None once after `cut` bytes. The search must stop there -
        // having reported exactly the matches of the bytes delivered so far and pulled exactly those
        // bytes - and leave the rest to the caller (streaming input)
        let cuts: Vec<usize> = if b.cfg.variant == Variant::Char {
            let s = std::str::from_utf8(hay).unwrap();
            (0..=hay.len()).filter(|&k| s.is_char_boundary(k)).collect()
        } else {
            (0..=hay.len()).collect()
        };
        for cut in cuts {
            let (got_cut, pulled) = b.auto.run_cut(m, hay, cut);
            let exp_cut = b.auto.run(slice_m, &hay[..cut]);
            acc.traces += 1;
            if got_cut != exp_cut || pulled != cut {
                bad = Some(format!(
                    "{} over a source that answers None once after {cut} of {} bytes: it reported {:?} and pulled {pulled} bytes before returning None; the {cut} bytes delivered contain {:?}",
                    m.name(), hay.len(), got_cut, exp_cut
                ));
                break;
            }
        }
    }
    if let Some(w) = bad {
        let mut c = e2::case_json(&b.cfg, pats, None);
        let o = c.as_object_mut().unwrap();
        o.insert("haystack".into(), json!(hex(hay)));
        o.insert("method".into(), json!(m.name()));
        o.insert("history".into(), json!(hist.iter().map(|(r, p)| json!({"result": r.map(|x| json!([x.0, x.1, x.2])), "pulled": p})).collect::<Vec<_>>()));
        acc.violate(prop, "lazy", format!("{w} [{} patterns {} haystack {:?}]", b.cfg.variant.name(), e2::show_pats(pats), e2::show(hay)), c);
    }
}

pub fn c12(tier: &str, acc: &mut Acc, bounds: &mut Vec<String>) {
    let prop = "C12";
    let thorough = tier_is_thorough(tier);
    let plan: Vec<(Scope, Vec<usize>, Vec<usize>)> = if thorough {
        vec![
            (Scope::new(2, 4, 3, Order::SetsBothWays, 7, 1), vec![0, 1, 2], vec![0, 1, 3]),
            (Scope::new(3, 3, 3, Order::Sets, 6, 1), vec![0, 1], vec![0, 4]),
        ]
    } else {
        vec![
            (Scope::new(2, 4, 3, Order::Sets, 6, 1), vec![0, 1], vec![0]),
            (Scope::new(3, 2, 3, Order::Sets, 5, 1), vec![2], vec![1, 3, 4]),
        ]
    };
    let bembs = enumr::byte_embeddings(util::seed());
    let cembs = enumr::char_embeddings();
    for (scope, bi, ci) in plan {
        for (variant, embs) in [
            (Variant::Byte, bi.iter().map(|&i| bembs[i].clone()).collect::<Vec<_>>()),
            (Variant::Char, ci.iter().map(|&i| cembs[i].clone()).collect::<Vec<_>>()),
        ] {
            let a = e2::run_scope(&scope, &embs, |ctx, acc| {
                let cfg = Cfg::new(variant, Kind::Std, None, Entry::Builder);
                set_case(prop, "lazy", e2::case_json(&cfg, &ctx.pats, None));
                let Some(b) = e2::build_or_violate(prop, "lazy", cfg, &ctx.pats, None, acc) else {
                    return;
                };
                ctx.for_each_hay(|hay| {
                    acc.evals += 1;
                    let occ = crate::oracle::occurrences(&ctx.pats, hay);
                    // non-trivial: some match ends before the end of the haystack (laziness is observable)
                    if occ.iter().any(|o| o.1 < hay.len()) {
                        acc.nontrivial += 1;
                    }
                    for m in [Method::FindIt, Method::OvlIt, Method::NoSufIt] {
                        c12_case(&b, &ctx.pats, hay, m, acc);
                    }
                });
            });
            acc.merge(a);
        }
        bounds.push(format!("counting source, pull count asserted after every next(): {} x byte[{}] char[{}] x 3 byte-iterator methods", scope.name(), bi.len(), ci.len()));
    }
}

pub fn replay_lazy(case: &Value) -> bool {
    let cfg = Cfg::from_json(case);
    let pats: Vec<Vec<u8>> = case["patterns"].as_array().unwrap().iter().map(|p| util::unhex(p.as_str().unwrap())).collect();
    let hay = util::unhex(case["haystack"].as_str().unwrap_or(""));
    let m = Method::parse(case["method"].as_str().unwrap());
    let mut acc = Acc::new();
    let Some(b) = e2::build_or_violate("C12", "lazy", cfg, &pats, None, &mut acc) else {
        return true;
    };
    c12_case(&b, &pats, &hay, m, &mut acc);
    !acc.violations.is_empty()
}

// ------------------------------------------------------------------------------------------------
// C14

pub fn permutations_pub(n: usize) -> Vec<Vec<usize>> {
    permutations(n)
}

fn permutations(n: usize) -> Vec<Vec<usize>> {
    fn rec(cur: &mut Vec<usize>, used: &mut Vec<bool>, n: usize, out: &mut Vec<Vec<usize>>) {
        if cur.len() == n {
            out.push(cur.clone());
            return;
        }
        for i in 0..n {
            if !used[i] {
                used[i] = true;
                cur.push(i);
                rec(cur, used, n, out);
                cur.pop();
                used[i] = false;
            }
        }
    }
    let mut out = Vec::new();
    rec(&mut Vec::new(), &mut vec![false; n], n, &mut out);
    out
}

/// All merges of the call sequences of `k` iterators, each advanced to exhaustion (+1 extra call
/// budget is not used: a finished iterator is not polled again).
fn merges(
    b: &Built,
    hays: &[Vec<u8>],
    methods: &[Method],
    solo: &[Vec<M>],
    image: &[u8],
    acc: &mut Acc,
) -> Option<String> {
    // state: per iterator, number of next() calls made so far
    let k = methods.len();
    let mut schedule: Vec<usize> = Vec::new();
    let mut total = 0u64;
    // iterative DFS over schedules; each schedule is executed from scratch on fresh iterators
    fn run(
        b: &Built,
        hays: &[Vec<u8>],
        methods: &[Method],
        schedule: &[usize],
        solo: &[Vec<M>],
    ) -> Result<Vec<bool>, String> {
        // fresh boxed iterators
        let mut its: Vec<Box<dyn Iterator<Item = M> + '_>> = Vec::new();
        for (i, &m) in methods.iter().enumerate() {
            its.push(b.auto.iter(m, &hays[i]));
        }
        let mut count = vec![0usize; methods.len()];
        let mut done = vec![false; methods.len()];
        for &i in schedule {
            let r = util::in_lib(|| its[i].next());
            let exp = solo[i].get(count[i]).copied();
            if r != exp {
                return Err(format!(
                    "iterator #{i} ({}) returned {:?} at its call #{}, alone it returns {:?} (schedule {:?})",
                    methods[i].name(), r, count[i], exp, schedule
                ));
            }
            count[i] += 1;
            if r.is_none() {
                done[i] = true;
            }
        }
        Ok(done)
    }
    loop {
        match run(b, hays, methods, &schedule, solo) {
            Err(e) => return Some(e),
            Ok(done) => {
                total += 1;
                // extend: first iterator not done
                let next = (0..k).find(|&i| !done[i]);
                if let Some(i) = next {
                    schedule.push(i);
                    continue;
                }
                // complete schedule: image must be unchanged
                acc.count("complete_call_merges", 1);
                if b.auto.serialize() != image {
                    return Some(format!("the automaton's bytes changed after the searches (schedule {schedule:?})"));
                }
                // backtrack: replace the last choice by the next not-done iterator
                loop {
                    let Some(last) = schedule.pop() else {
                        acc.count("call_prefixes_executed", total);
                        return None;
                    };
                    let done_before = match run(b, hays, methods, &schedule, solo) {
                        Ok(d) => d,
                        Err(e) => return Some(e),
                    };
                    if let Some(i) = (last + 1..k).find(|&i| !done_before[i]) {
                        schedule.push(i);
                        break;
                    }
                }
            }
        }
    }
}

pub fn c14(tier: &str, acc: &mut Acc, bounds: &mut Vec<String>) {
    let prop = "C14";
    let thorough = tier_is_thorough(tier);
    // --- determinism + order independence: every set, all n! orders ---------------------------
    let kmax = if thorough { 5 } else { 4 };
    let scopes = [(2usize, 3usize), (3, 2)];
    let bembs = enumr::byte_embeddings(util::seed());
    let cembs = enumr::char_embeddings();
    for (sigma, maxlen) in scopes {
        let scope = Scope::new(sigma, maxlen, kmax, Order::Sets, 0, 0);
        for (variant, embs) in [
            (Variant::Byte, vec![bembs[0].clone(), bembs[1].clone()]),
            // equal character frequencies in `cjk` exercise the mapper tie-break
            (Variant::Char, vec![cembs[0].clone(), cembs[2].clone(), cembs[4].clone()]),
        ] {
            let a = e2::run_scope(&scope, &embs, |ctx, acc| {
                let n = ctx.pats.len();
                let vals: Vec<u32> = (0..n as u32).map(|i| 7 + 5 * (i % 3)).collect();
                let perms = permutations(n);
                for kind in [Kind::Std, Kind::LL] {
                    for nfb in [Some(1), None] {
                        let cfg = Cfg::new(variant, kind, nfb, Entry::Builder);
                        set_case(prop, "orders", e2::case_json(&cfg, &ctx.pats, Some(&vals)));
                        let mut first: Option<Vec<u8>> = None;
                        for p in &perms {
                            let pp: Vec<Vec<u8>> = p.iter().map(|&i| ctx.pats[i].clone()).collect();
                            let pv: Vec<u32> = p.iter().map(|&i| vals[i]).collect();
                            let Some(b) = e2::build_or_violate(prop, "orders", cfg, &pp, Some(&pv), acc) else {
                                continue;
                            };
                            let bytes = b.auto.serialize();
                            acc.evals += 1;
                            acc.traces += 1;
                            if perms.len() > 1 {
                                acc.nontrivial += 1;
                            }
                            match &first {
                                None => {
                                    // determinism: the same input twice
                                    if let Some(b2) = e2::build_or_violate(prop, "orders", cfg, &pp, Some(&pv), acc) {
                                        if !b2.auto.same(&b.auto) || b2.auto.serialize() != bytes {
                                            acc.violate(prop, "orders", format!("building twice from the same input gives different automata: {}", e2::show_pats(&pp)),
                                                e2::with(e2::case_json(&cfg, &pp, Some(&pv)), "check", json!("determinism")));
                                        }
                                    }
                                    acc.outcomes.insert(util::fnv(&bytes, util::FNV0));
                                    first = Some(bytes);
                                }
                                Some(f) => {
                                    if *f != bytes {
                                        let mut c = e2::case_json(&cfg, &pp, Some(&pv));
                                        c.as_object_mut().unwrap().insert("check".into(), json!("order"));
                                        c.as_object_mut().unwrap().insert("reference_order".into(), json!(ctx.pats.iter().map(|p| hex(p)).collect::<Vec<_>>()));
                                        c.as_object_mut().unwrap().insert("reference_values".into(), json!(vals));
                                        acc.violate(prop, "orders", format!("registration order changes the automaton: {} vs {} [{} {}]", e2::show_pats(&pp), e2::show_pats(&ctx.pats), variant.name(), kind.name()), c);
                                    }
                                }
                            }
                        }
                    }
                }
            });
            acc.merge(a);
        }
        bounds.push(format!("all n! orders of every set of <= {kmax} patterns from U({sigma},{maxlen}) with fixed values x Standard/LeftmostLongest x nfb {{1,default}} x 5 embeddings: byte-identical images; double build"));
    }
    // --- wide nodes: five and more children below one state, several of them non-leaves with equal
    //     fan-out (a tie-break on anything but the label would depend on the registration order) ----
    {
        let pool: Vec<Vec<u8>> = ["a", "b", "c", "d", "e", "ax", "by", "cx", "dy", "f"].iter().map(|s| s.as_bytes().to_vec()).collect();
        let cpool: Vec<Vec<u8>> = ["\u{e9}", "b", "\u{4e16}", "d", "\u{1f600}", "\u{e9}x", "by", "\u{4e16}x", "dy", "f"].iter().map(|s| s.as_bytes().to_vec()).collect();
        let sizes: &[usize] = if thorough { &[5, 6] } else { &[5] };
        let mut sets: Vec<Vec<usize>> = Vec::new();
        for mask in 0u32..(1 << pool.len()) {
            let k = mask.count_ones() as usize;
            if sizes.contains(&k) {
                let idx: Vec<usize> = (0..pool.len()).filter(|i| mask & (1 << i) != 0).collect();
                // duplicate-free by construction; keep sets with at least two two-letter patterns
                if idx.iter().filter(|&&i| pool[i].len() == 2).count() >= 2 {
                    sets.push(idx);
                }
            }
        }
        let a = par_for(sets.len(), |si, acc| {
            let idx = &sets[si];
            let perms = permutations(idx.len());
            for (variant, pl) in [(Variant::Byte, &pool), (Variant::Char, &cpool)] {
                for kind in [Kind::Std, Kind::LL] {
                    let cfg = Cfg::new(variant, kind, None, Entry::Builder);
                    let base: Vec<Vec<u8>> = idx.iter().map(|&i| pl[i].clone()).collect();
                    let vals: Vec<u32> = idx.iter().map(|&i| 100 + i as u32).collect();
                    set_case(prop, "orders", e2::case_json(&cfg, &base, Some(&vals)));
                    let mut first: Option<Vec<u8>> = None;
                    for p in &perms {
                        let pp: Vec<Vec<u8>> = p.iter().map(|&i| base[i].clone()).collect();
                        let pv: Vec<u32> = p.iter().map(|&i| vals[i]).collect();
                        let Some(b) = e2::build_or_violate(prop, "orders", cfg, &pp, Some(&pv), acc) else {
                            continue;
                        };
                        let bytes = b.auto.serialize();
                        acc.evals += 1;
                        acc.nontrivial += 1;
                        acc.traces += 1;
                        match &first {
                            None => first = Some(bytes),
                            Some(f) => {
                                if *f != bytes {
                                    let mut c = e2::case_json(&cfg, &pp, Some(&pv));
                                    c.as_object_mut().unwrap().insert("check".into(), json!("order"));
                                    c.as_object_mut().unwrap().insert("reference_order".into(), json!(base.iter().map(|p| hex(p)).collect::<Vec<_>>()));
                                    c.as_object_mut().unwrap().insert("reference_values".into(), json!(vals));
                                    acc.violate(prop, "orders", format!("registration order changes the automaton: {} vs {} [{} {}]", e2::show_pats(&pp), e2::show_pats(&base), variant.name(), kind.name()), c);
                                    break;
                                }
                            }
                        }
                    }
                }
            }
        });
        acc.merge(a);
        bounds.push(format!("all n! orders of every set of {sizes:?} patterns from a 10-string pool with five root children and tied non-leaf siblings ({} sets) x Standard/LeftmostLongest x both variants", sets.len()));
    }
    // --- large families: identity, reversal, rotations, even/odd interleave --------------------
    let level = if thorough { 1 } else { 0 };
    let fams = pop::families_for(level);
    let mut tasks = Vec::new();
    for i in 0..fams.len() {
        for kind in [Kind::Std, Kind::LL] {
            tasks.push((i, kind));
        }
    }
    let a = par_for(tasks.len(), |ti, acc| {
        let (fi, kind) = tasks[ti];
        let (variant, fam) = &fams[fi];
        let n = fam.pats.len();
        let vals: Vec<u32> = (0..n as u32).collect();
        let mut orders: Vec<Vec<usize>> = vec![(0..n).collect(), (0..n).rev().collect()];
        for r in [1usize, 255, 256, 257, n / 2] {
            if n > 1 {
                orders.push((0..n).map(|i| (i + r) % n).collect());
            }
        }
        let mut eo: Vec<usize> = (0..n).step_by(2).collect();
        eo.extend((1..n).step_by(2));
        orders.push(eo);
        for nfb in [Some(2), None] {
            let cfg = Cfg::new(*variant, kind, nfb, Entry::Builder);
            set_case(prop, "orders", pop::origin_json(fam, level, &cfg));
            let mut first: Option<Vec<u8>> = None;
            for (oi, o) in orders.iter().enumerate() {
                let pp: Vec<Vec<u8>> = o.iter().map(|&i| fam.pats[i].clone()).collect();
                let pv: Vec<u32> = o.iter().map(|&i| vals[i]).collect();
                let Some(b) = e2::build_or_violate(prop, "orders", cfg, &pp, Some(&pv), acc) else {
                    continue;
                };
                let bytes = b.auto.serialize();
                acc.evals += 1;
                acc.nontrivial += 1;
                acc.traces += 1;
                match &first {
                    None => first = Some(bytes),
                    Some(f) => {
                        if *f != bytes {
                            let mut c = pop::origin_json(fam, level, &cfg);
                            c.as_object_mut().unwrap().insert("order_index".into(), json!(oi));
                            c.as_object_mut().unwrap().insert("check".into(), json!("family_order"));
                            acc.violate(prop, "orders", format!("family {}: registration order #{oi} (reversal/rotation/interleave) changes the automaton [{} {}]", fam.name, variant.name(), kind.name()), c);
                        }
                    }
                }
            }
        }
    });
    acc.merge(a);
    bounds.push(format!("{} families x Standard/LeftmostLongest x nfb {{2,default}}: identity, reversal, 5 rotations, even/odd interleave (n! out of reach there)", fams.len()));
    // --- purity: all merges of next() call sequences ------------------------------------------
    let pat_sets: Vec<Vec<&str>> = vec![
        vec!["a", "ab", "bab", "b"],
        vec!["aa", "a"],
        vec!["\u{4e16}", "a\u{4e16}", "\u{4e16}\u{4e16}a"],
    ];
    let hay_sets: Vec<Vec<&str>> = vec![
        vec!["abab", "bab", "aab"],
        vec!["aaa", "aa", "a"],
        vec!["a\u{4e16}\u{4e16}a", "\u{4e16}a\u{4e16}", "\u{4e16}\u{4e16}"],
    ];
    let mut am = Acc::new();
    for (pi, ps) in pat_sets.iter().enumerate() {
        let pats: Vec<Vec<u8>> = ps.iter().map(|s| s.as_bytes().to_vec()).collect();
        let hays: Vec<Vec<u8>> = hay_sets[pi].iter().map(|s| s.as_bytes().to_vec()).collect();
        for variant in Variant::ALL {
            for kind in Kind::ALL {
                let cfg = Cfg::new(variant, kind, None, Entry::Builder);
                set_case(prop, "merges", e2::case_json(&cfg, &pats, None));
                let Some(b) = e2::build_or_violate(prop, "merges", cfg, &pats, None, &mut am) else {
                    continue;
                };
                let image = b.auto.serialize();
                let ms = Method::for_kind(kind);
                // pairs and triples of (method, haystack)
                let mut combos: Vec<Vec<(Method, usize)>> = Vec::new();
                for (i, &m1) in ms.iter().enumerate() {
                    for &m2 in ms.iter().skip(i) {
                        combos.push(vec![(m1, 0), (m2, 1)]);
                        combos.push(vec![(m1, 0), (m2, 0)]);
                    }
                }
                if thorough || kind != Kind::Std {
                    combos.push(vec![(ms[0], 0), (ms[ms.len() - 1], 1), (ms[ms.len() / 2], 2)]);
                }
                for combo in combos {
                    let methods: Vec<Method> = combo.iter().map(|c| c.0).collect();
                    let hs: Vec<Vec<u8>> = combo.iter().map(|c| hays[c.1].clone()).collect();
                    let solo: Vec<Vec<M>> = methods.iter().zip(hs.iter()).map(|(m, h)| b.auto.run(*m, h)).collect();
                    am.evals += 1;
                    am.nontrivial += 1;
                    if let Some(w) = merges(&b, &hs, &methods, &solo, &image, &mut am) {
                        let mut c = e2::case_json(&cfg, &pats, None);
                        c.as_object_mut().unwrap().insert("methods".into(), json!(methods.iter().map(|m| m.name()).collect::<Vec<_>>()));
                        c.as_object_mut().unwrap().insert("haystacks".into(), json!(hs.iter().map(|h| hex(h)).collect::<Vec<_>>()));
                        am.violate(prop, "merges", format!("interleaved searches disturb each other: {w}"), c);
                    }
                }
            }
        }
    }
    acc.merge(am);
    bounds.push("all merges of the next() call sequences of 2 (and 3) iterators over 3 pattern sets x both variants x 3 kinds; image unchanged after every complete merge".into());
    // --- sequences of whole searches on ONE thread, over TWO automata: state kept outside the
    //     automaton (a thread-local or static cache) must not leak from one search into the next.
    //     The expected result of every operation is computed on a fresh OS thread. -------------------
    {
        let mut asq = Acc::new();
        let sets: [Vec<&str>; 2] = [vec!["ab", "b", "bca"], vec!["ba", "a", "cab"]];
        let csets: [Vec<&str>; 2] = [vec!["\u{4e16}b", "b", "b\u{4e16}a"], vec!["b\u{4e16}", "\u{4e16}", "ab\u{4e16}"]];
        let hays: [&str; 3] = ["abcab", "bcaba", "cabab"];
        let chays: [&str; 3] = ["a\u{4e16}b\u{4e16}ab", "b\u{4e16}ab\u{4e16}", "ab\u{4e16}b"];
        for variant in Variant::ALL {
            for kind in Kind::ALL {
                let (ps, hs) = if variant == Variant::Byte { (&sets, &hays) } else { (&csets, &chays) };
                let cfg = Cfg::new(variant, kind, None, Entry::Builder);
                let pats: Vec<Vec<Vec<u8>>> = ps.iter().map(|s| s.iter().map(|p| p.as_bytes().to_vec()).collect()).collect();
                set_case(prop, "merges", e2::case_json(&cfg, &pats[0], None));
                let autos: Vec<Built> = pats.iter().filter_map(|p| e2::build_or_violate(prop, "merges", cfg, p, None, &mut asq)).collect();
                if autos.len() != 2 {
                    continue;
                }
                let ms = Method::for_kind(kind);
                // operations: (automaton, method, haystack)
                let mut ops: Vec<(usize, Method, usize)> = Vec::new();
                for a in 0..2 {
                    for (mi, &m) in ms.iter().enumerate() {
                        ops.push((a, m, (a + mi) % 3));
                    }
                }
                ops.truncate(6);
                // expected results on fresh threads (no thread-local state can carry over)
                let expected: Vec<Vec<M>> = ops
                    .iter()
                    .map(|&(a, m, h)| {
                        let au = &autos[a];
                        let hay = hs[h].as_bytes();
                        std::thread::scope(|sc| sc.spawn(|| au.auto.run(m, hay)).join().unwrap())
                    })
                    .collect();
                // every order of the operations, one after the other on this thread
                for perm in permutations(ops.len()) {
                    asq.evals += 1;
                    asq.nontrivial += 1;
                    for &oi in &perm {
                        let (a, m, h) = ops[oi];
                        let got = autos[a].auto.run(m, hs[h].as_bytes());
                        asq.traces += 1;
                        if got != expected[oi] {
                            let mut c = e2::case_json(&cfg, &pats[a], None);
                            c.as_object_mut().unwrap().insert("check".into(), json!("threads"));
                            c.as_object_mut().unwrap().insert("sequence".into(), json!(perm.iter().map(|&i| format!("automaton {} {} {:?}", ops[i].0, ops[i].1.name(), hs[ops[i].2])).collect::<Vec<_>>()));
                            asq.violate(prop, "merges", format!("a sequence of searches on one thread changes a result: {} on automaton {} over {:?} returned {:?}, on a fresh thread it returns {:?} (state leaks between searches)", m.name(), a, hs[h], got, expected[oi]), c);
                            break;
                        }
                    }
                    if !asq.violations.is_empty() {
                        break;
                    }
                }
            }
        }
        acc.merge(asq);
        bounds.push("all orders of 6 whole searches over two automata on one thread (expected results from fresh threads) x both variants x 3 kinds".into());
    }
    // --- relocation histories: an automaton that takes over the memory of another one (in-place
    //     replacement, mem::swap of an active and a standby automaton) must search as if it had always
    //     been there. One slot, every ordered pair (A, B) of automata of a small universe, every
    //     (h1, h2): search A in the slot over h1, swap B into the slot, search B over h2, against the
    //     brute-force oracle. Single thread on purpose (state kept outside the automaton would be
    //     disturbed, hence masked, by concurrent searches). -------------------------------------------
    {
        let mut ar = Acc::new();
        let letters: Vec<&str> = if thorough { vec!["\u{4e16}", "\u{754c}", "a"] } else { vec!["\u{4e16}", "\u{754c}"] };
        let hletters: [&str; 3] = ["\u{4e16}", "\u{754c}", "a"];
        let words = |ls: &[&str], n: usize| -> Vec<Vec<u8>> {
            let mut out: Vec<Vec<u8>> = Vec::new();
            let mut layer: Vec<String> = vec![String::new()];
            for _ in 0..n {
                let mut next = Vec::new();
                for w in &layer {
                    for l in ls {
                        next.push(format!("{w}{l}"));
                    }
                }
                out.extend(next.iter().map(|w| w.as_bytes().to_vec()));
                layer = next;
            }
            out
        };
        let uni = words(&letters, 2);
        let mut sets: Vec<Vec<Vec<u8>>> = Vec::new();
        for i in 0..uni.len() {
            sets.push(vec![uni[i].clone()]);
            for j in i + 1..uni.len() {
                sets.push(vec![uni[i].clone(), uni[j].clone()]);
            }
        }
        let h1s = words(&hletters, 2);
        let h2s = words(&hletters, 3);
        'outer: for variant in Variant::ALL {
            for kind in Kind::ALL {
                let cfg = Cfg::new(variant, kind, None, Entry::Builder);
                let ms = Method::for_kind(kind);
                set_case(prop, "merges", e2::case_json(&cfg, &sets[0], None));
                let mut pool: Vec<Auto> = Vec::new();
                for ps in &sets {
                    match e2::build_or_violate(prop, "merges", cfg, ps, None, &mut ar) {
                        Some(b) => pool.push(b.auto),
                        None => continue 'outer,
                    }
                }
                let Some(ph) = e2::build_or_violate(prop, "merges", cfg, &[b"a".to_vec()], None, &mut ar) else { continue };
                let mut slot: Auto = ph.auto;
                // oracle answers
                let expect = |si: usize, m: Method, h: &[u8]| -> Vec<M> {
                    let occ = crate::oracle::occurrences(&sets[si], h);
                    e2::expected_occ(m, kind, &occ).into_iter().map(|(s, e, i)| (s, e, i as u64)).collect()
                };
                let exp2: Vec<Vec<Vec<Vec<M>>>> = (0..sets.len()).map(|si| h2s.iter().map(|h| ms.iter().map(|&m| expect(si, m, h)).collect()).collect()).collect();
                let exp1: Vec<Vec<Vec<M>>> = (0..sets.len()).map(|si| h1s.iter().map(|h| expect(si, ms[0], h)).collect()).collect();
                for a in 0..sets.len() {
                    std::mem::swap(&mut slot, &mut pool[a]); // slot = A
                    for b in 0..sets.len() {
                        if a == b {
                            continue;
                        }
                        ar.evals += 1;
                        ar.nontrivial += 1;
                        for (i1, h1) in h1s.iter().enumerate() {
                            for (i2, h2) in h2s.iter().enumerate() {
                                for (mi, &m) in ms.iter().enumerate() {
                                    let g1 = slot.run(ms[0], h1);
                                    std::mem::swap(&mut slot, &mut pool[b]); // slot = B, pool[b] = A
                                    let g2 = slot.run(m, h2);
                                    std::mem::swap(&mut slot, &mut pool[b]); // back
                                    ar.traces += 2;
                                    let bad1 = g1 != exp1[a][i1];
                                    if bad1 || g2 != exp2[b][i2][mi] {
                                        let (si, hh, got, want, mm) = if bad1 { (a, h1, &g1, &exp1[a][i1], ms[0]) } else { (b, h2, &g2, &exp2[b][i2][mi], m) };
                                        let mut c = e2::case_json(&cfg, &sets[si], None);
                                        let o = c.as_object_mut().unwrap();
                                        o.insert("check".into(), json!("threads"));
                                        o.insert("history".into(), json!([
                                            format!("slot holds the automaton of {:?}; {} over {:?}", sets[a].iter().map(|p| String::from_utf8_lossy(p).to_string()).collect::<Vec<_>>(), ms[0].name(), String::from_utf8_lossy(h1)),
                                            format!("mem::swap puts the automaton of {:?} into the slot; {} over {:?}", sets[b].iter().map(|p| String::from_utf8_lossy(p).to_string()).collect::<Vec<_>>(), m.name(), String::from_utf8_lossy(h2)),
                                        ]));
                                        ar.violate(prop, "merges", format!("the result of a search depends on what lived at the automaton's address before: {} on {} [{}] patterns={:?} haystack={:?} returned {:?}, expected {:?} (history in the replay file)", mm.name(), variant.name(), kind.name(), sets[si].iter().map(|p| String::from_utf8_lossy(p).to_string()).collect::<Vec<_>>(), String::from_utf8_lossy(hh), got, want), c);
                                        std::mem::swap(&mut slot, &mut pool[a]);
                                        continue 'outer;
                                    }
                                }
                            }
                        }
                    }
                    std::mem::swap(&mut slot, &mut pool[a]); // A back to the pool
                }
            }
        }
        ar.count("relocation_pairs", ar.evals);
        acc.merge(ar);
        bounds.push(format!("relocation histories: every ordered pair of automata over all sets of 1-2 patterns of length <= 2 over {} letters x every (h1 of length <= 2, h2 of length <= 3 over 3 letters) x every method: search A in a slot, swap B into the same memory, search B - against brute force; both variants x 3 kinds, one thread", letters.len()));
    }
    // --- searching does not write to the automaton: byte snapshot of the object itself ---------
    let mut asn = Acc::new();
    for (pi, ps) in pat_sets.iter().enumerate() {
        let pats: Vec<Vec<u8>> = ps.iter().map(|s| s.as_bytes().to_vec()).collect();
        for variant in Variant::ALL {
            for kind in Kind::ALL {
                let cfg = Cfg::new(variant, kind, None, Entry::Builder);
                set_case(prop, "merges", e2::case_json(&cfg, &pats, None));
                let Some(b) = e2::build_or_violate(prop, "merges", cfg, &pats, None, &mut asn) else {
                    continue;
                };
                let before = (b.auto.object_bytes(), b.auto.serialize());
                for h in &hay_sets[pi] {
                    for &m in Method::for_kind(kind) {
                        let _ = b.auto.run(m, h.as_bytes());
                        asn.evals += 1;
                        asn.traces += 1;
                        let after = (b.auto.object_bytes(), b.auto.serialize());
                        if after != before {
                            let mut c = e2::case_json(&cfg, &pats, None);
                            c.as_object_mut().unwrap().insert("methods".into(), json!([m.name()]));
                            c.as_object_mut().unwrap().insert("haystacks".into(), json!([hex(h.as_bytes())]));
                            c.as_object_mut().unwrap().insert("check".into(), json!("snapshot"));
                            asn.violate(prop, "merges", format!("{} on {:?} changed the memory of the {} automaton object (interior mutability: searching is not pure)", m.name(), h, variant.name()), c);
                            break;
                        }
                    }
                }
            }
        }
    }
    acc.merge(asn);
    bounds.push("object snapshot: the bytes of the automaton object (inline fields) and its serialised image are identical before and after every search method x haystack x 3 pattern sets x both variants x 3 kinds".into());
    // --- supplementary, SAMPLED (not exhaustive): free-running OS threads on one shared automaton
    let rounds = if thorough { 60_000 } else { 8_000 };
    let mut afr = Acc::new();
    for variant in Variant::ALL {
        for kind in [Kind::Std, Kind::LL] {
            let pats: Vec<Vec<u8>> = ["\u{4e16}\u{754c}", "a\u{4e16}", "b", "ab", "\u{e9}b"].iter().map(|s| s.as_bytes().to_vec()).collect();
            let cfg = Cfg::new(variant, kind, None, Entry::Builder);
            set_case(prop, "merges", e2::case_json(&cfg, &pats, None));
            let Some(b) = e2::build_or_violate(prop, "merges", cfg, &pats, None, &mut afr) else {
                continue;
            };
            let hays: Vec<Vec<u8>> = ["ab\u{4e16}\u{754c}a\u{4e16}", "\u{e9}bab", "b\u{754c}\u{4e16}\u{754c}", "xyzab"].iter().map(|s| s.as_bytes().to_vec()).collect();
            let ms = Method::for_kind(kind);
            let expected: Vec<Vec<Vec<M>>> = hays.iter().map(|h| ms.iter().map(|&m| b.auto.run(m, h)).collect()).collect();
            let bad = std::sync::atomic::AtomicBool::new(false);
            std::thread::scope(|sc| {
                for t in 0..4usize {
                    let (b, hays, expected, bad) = (&b, &hays, &expected, &bad);
                    sc.spawn(move || {
                        for r in 0..rounds {
                            let hi = (r + t) % hays.len();
                            for (mi, &m) in ms.iter().enumerate() {
                                let r = catch_unwind(AssertUnwindSafe(|| b.auto.run(m, &hays[hi])));
                                if r.map_or(true, |x| x != expected[hi][mi]) {
                                    let _ = util::take_last_panic();
                                    bad.store(true, std::sync::atomic::Ordering::Relaxed);
                                    return;
                                }
                            }
                            if bad.load(std::sync::atomic::Ordering::Relaxed) {
                                return;
                            }
                        }
                    });
                }
            });
            afr.count("free_running_thread_searches_sampled", (4 * rounds * ms.len()) as u64);
            if bad.load(std::sync::atomic::Ordering::Relaxed) {
                let mut c = e2::case_json(&cfg, &pats, None);
                c.as_object_mut().unwrap().insert("check".into(), json!("threads"));
                c.as_object_mut().unwrap().insert("haystacks".into(), json!(hays.iter().map(|h| hex(h)).collect::<Vec<_>>()));
                c.as_object_mut().unwrap().insert("methods".into(), json!(ms.iter().map(|m| m.name()).collect::<Vec<_>>()));
                afr.violate(prop, "merges", format!("4 OS threads searching one shared {} automaton concurrently got a result that differs from the sequential one", variant.name()), c);
            }
        }
    }
    acc.merge(afr);
    bounds.push(format!("supplementary, sampled (not exhaustive): 4 free-running OS threads x {rounds} rounds x all methods on one shared automaton, both variants, Standard and LeftmostLongest"));
}

pub fn replay_orders(case: &Value) -> bool {
    let mut acc = Acc::new();
    if case["check"].as_str() == Some("family_order") {
        println!("replay: re-run `./check C14 quick` (family order findings are re-derived from the family name)");
        let mut b = Vec::new();
        c14("quick", &mut acc, &mut b);
        return !acc.violations.is_empty();
    }
    let cfg = Cfg::from_json(case);
    let pats: Vec<Vec<u8>> = case["patterns"].as_array().unwrap().iter().map(|p| util::unhex(p.as_str().unwrap())).collect();
    let vals: Vec<u32> = case["values"].as_array().unwrap().iter().map(|x| x.as_u64().unwrap() as u32).collect();
    let Some(b) = e2::build_or_violate("C14", "orders", cfg, &pats, Some(&vals), &mut acc) else {
        return true;
    };
    let (rp, rv): (Vec<Vec<u8>>, Vec<u32>) = if case["check"].as_str() == Some("order") {
        (
            case["reference_order"].as_array().unwrap().iter().map(|p| util::unhex(p.as_str().unwrap())).collect(),
            case["reference_values"].as_array().unwrap().iter().map(|x| x.as_u64().unwrap() as u32).collect(),
        )
    } else {
        (pats.clone(), vals.clone())
    };
    let Some(b2) = e2::build_or_violate("C14", "orders", cfg, &rp, Some(&rv), &mut acc) else {
        return true;
    };
    let same = b.auto.serialize() == b2.auto.serialize() && b.auto.same(&b2.auto);
    println!("replay: the two builds are {}", if same { "identical" } else { "DIFFERENT" });
    !same
}

pub fn replay_merges(case: &Value) -> bool {
    if matches!(case["check"].as_str(), Some("snapshot") | Some("threads")) {
        let mut acc = Acc::new();
        let mut b = Vec::new();
        println!("replay: re-running the purity part of C14");
        c14("quick", &mut acc, &mut b);
        return !acc.violations.is_empty();
    }
    let cfg = Cfg::from_json(case);
    let pats: Vec<Vec<u8>> = case["patterns"].as_array().unwrap().iter().map(|p| util::unhex(p.as_str().unwrap())).collect();
    let methods: Vec<Method> = case["methods"].as_array().unwrap().iter().map(|m| Method::parse(m.as_str().unwrap())).collect();
    let hs: Vec<Vec<u8>> = case["haystacks"].as_array().unwrap().iter().map(|h| util::unhex(h.as_str().unwrap())).collect();
    let mut acc = Acc::new();
    let Some(b) = e2::build_or_violate("C14", "merges", cfg, &pats, None, &mut acc) else {
        return true;
    };
    let image = b.auto.serialize();
    let solo: Vec<Vec<M>> = methods.iter().zip(hs.iter()).map(|(m, h)| b.auto.run(*m, h)).collect();
    match merges(&b, &hs, &methods, &solo, &image, &mut acc) {
        Some(w) => {
            println!("replay: {w}");
            true
        }
        None => {
            println!("replay: every merge equals the solo runs");
            false
        }
    }
}

pub fn _keep(_: &Auto) {}

#!/bin/bash
# usage: tools/run_seed.sh <seed dir> <patch file> <ID>...  -> applies patch to /repo, runs quick checks, reverts; prints summary
D=$1; PATCH=$2; shift 2
cd /repo || exit 2
git diff --quiet || { echo "/repo dirty"; exit 2; }
git apply "$PATCH" || { echo "patch does not apply to /repo"; exit 2; }
trap 'git -C /repo checkout -q -- . ; git -C /repo clean -fdq src daacfind/src tests 2>/dev/null' EXIT
cd /verif
for p in "$@"; do
  s=$(date +%s)
  out=$(./check "$p" ${TIER:-quick} 2>&1); rc=$?
  e=$(date +%s)
  nv=$(echo "$out" | grep -c "^VIOLATION")
  first=$(echo "$out" | grep -A1 "^VIOLATION" | head -2 | tr '\n' ' ' | cut -c1-420)
  echo "$(basename $D) $(basename $PATCH) $p rc=$rc violations=$nv $((e-s))s :: $first"
done

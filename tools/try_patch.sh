#!/bin/bash
# usage: tools/try_patch.sh <patch.diff> <ID>...   applies the patch to /repo, runs the quick checks, reverts.
set -u
patch=$1; shift
cd /repo || exit 2
if ! git diff --quiet; then echo "/repo is dirty"; exit 2; fi
git apply "$patch" || { echo "patch does not apply"; exit 2; }
trap 'git -C /repo checkout -- . ; git -C /repo clean -fdq src daacfind/src tests 2>/dev/null' EXIT
cd /verif
for p in "$@"; do
  out=$(./check "$p" ${TIER:-quick} 2>&1); rc=$?
  nv=$(echo "$out" | grep -c "^VIOLATION")
  echo "== $p rc=$rc violations=$nv"
  echo "$out" | grep -A1 "^VIOLATION" | head -4 | cut -c1-400
done

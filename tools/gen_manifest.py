#!/usr/bin/env python3
"""Generates /verif/MANIFEST.json. Edit CLAIMED / the texts here, then run this script."""
import json, os, subprocess

ROOT = os.path.dirname(os.path.dirname(os.path.abspath(__file__)))

# property -> (claimed?, level category, technique, level text, level note, design ref)
P = {
 "C01": (True, "model_checking", "explicit-state exploration of each built automaton (all reachable states x all labels) against a textbook Aho-Corasick reference, every step replayed on the crate's own transition function; transition cover of the iterators; bounded-exhaustive enumeration of pattern sequences x haystacks against a brute-force oracle",
  "For each automaton of the population the whole reachable table is explored and shown equal to the textbook automaton (transition function and output chains), which decides the overlapping search for every haystack of that automaton; the iterators are driven through every (state,label) via access strings (E3); all automata of the small scopes are enumerated exhaustively with all haystacks up to the bound (E2).",
  "Large pattern sets are a designed family, not all sets. 'All haystacks' at iterator level rests on the iterator's reaction depending only on (state, pending output, position), guarded by E2. Oracles: brute-force slice comparison; reference automaton written in the harness.", "§3 C01"),
 "C02": (True, "model_checking", "explicit-state table exploration vs textbook reference + transition cover of find_iter / find_iter_from_iter + bounded-exhaustive enumeration vs the restart oracle",
  "Table equality (E1) plus a transition cover of the non-overlapping iterators from every trie node, plus exhaustive small-scope enumeration with the 'earliest end, longest, restart at end' oracle, both variants, slice and byte-iterator entry points.",
  "Same trusted base as C01.", "§3 C02"),
 "C03": (True, "model_checking", "product exploration of the leftmost iterator's configuration graph (state, pending candidate, distance to its end - stepped with the crate's own leftmost transition function, every pair replayed on the public iterator) with a reference machine that implements the definition of leftmost-longest search, for all labels, on every automaton of the population; plus bounded-exhaustive enumeration of pattern sequences x haystacks against a brute-force oracle (which also validates the reference machine)",
  "A completed product exploration (E7) shows for one automaton that the first match of a scan is right for every text - at the end of the text both sides hold the same match, and whenever the iterator returns early the definition is already decided on that match - hence every sequence of matches, each call being a fresh scan from the previous end. The small scopes (pattern length up to 5-6, all orders in the thorough tier) are enumerated exhaustively with all haystacks up to the bound (E2), and every E2 case validates the reference machine against brute force.",
  "Population of large automata is a designed family. The iterator model (10 lines mirroring LestmostFindIterator::next) is bound to the code by running the public iterator on the access text of every explored pair. Differences are confirmed on a concrete haystack through the public API before an alarm is raised.", "§3 C03, §11.16"),
 "C04": (True, "model_checking", "as C03 with the leftmost-first definition (earliest-registered pattern at the leftmost start; the reference machine works on the full ordered pattern list, shadowed patterns included), plus bounded-exhaustive enumeration of ordered pattern sequences and a shadow differential",
  "Product exploration (E7) per automaton for all texts; every ordered duplicate-free sequence of the small scopes x every haystack (E2); the never-reported clause and the no-influence clause are checked on every case.",
  "As C03.", "§3 C04, §11.16"),
 "C05": (True, "model_checking", "explicit-state table exploration (head of every state's output chain = longest pattern ending there) + transition cover of the no-suffix iterators + bounded-exhaustive enumeration",
  "As C01 for the no-suffix iterators.", "Same trusted base as C01.", "§3 C05"),
 "C06": (True, "exploration", "bounded-exhaustive enumeration of pattern sets x value assignments x 16 value types (13 built-in, Empty, three user-defined Serializable) x match kinds x search methods, before and after a serialisation round trip; scale cases (haystacks/patterns/pattern counts beyond 65 535)",
  "Every function from the patterns of each small set to {0,1,MAX} (signed: MIN,-1,0,MAX) is built with build_with_values and every match of every haystack is checked against the registered value; bare patterns must carry their position; 256/128-pattern index boundary for u8/i8.",
  "Bounded sets (<= 3 patterns). Table-level values for all haystacks come from C01's E1.", "§3 C06"),
 "C07": (True, "model_checking", "closure exploration of the raw table of every automaton (all reachable states x all labels, fail links, output chains) with a bounds-checked interpreter, for built and deserialised automata; all enumeration sweeps (u32 values and the 16-type value matrix incl. the zero-sized Empty) executed with std's unsafe-precondition checks on; haystack objects whose AsRef answer changes once, at every possible call (environment-answer deviation bound 1); UTF-8 decoder swept over all 1,112,064 scalar values",
  "For every automaton of the population every index the search loop can compute from a reachable state is enumerated and shown in range, for all three kinds, built and restored; the iterators and the decoder are executed under precondition checks on the enumerated haystacks and on every Unicode scalar value.",
  "Closure covers the tables; iterator-level UB is covered on executed paths only (precondition checks; Miri on a reduced enumeration in the thorough tier).", "§3 C07"),
 "C08": (True, "model_checking", "product exploration (bisimulation at character granularity) of the char-wise and the byte-wise automaton built from the same patterns, every step on the crates' own transition functions; bounded-exhaustive differential enumeration of all search methods",
  "A completed product exploration over every pattern character, its neighbours and unmapped representatives shows identical observable behaviour on every text for that pair; thorough sweeps every Unicode scalar value as label. Differences are confirmed through the public API before an alarm is raised.",
  "Population of pattern sets is bounded/designed. Oracle: the byte-wise automaton and brute force.", "§3 C08"),
 "C09": (True, "model_checking", "for every automaton of the population: deserialize(serialize(a) ++ tail) for several tails, equality, byte identity, independent parse of the byte image against the raw table, product exploration original vs restored, search differential",
  "Every automaton built anywhere in the population (small scope x kinds x variants, large families) and every value type incl. user-defined fixed-width ones is round-tripped with four different tails.",
  "Byte layout is parsed independently from the documented field order.", "§3 C09"),
 "C10": (True, "exploration", "bounded-exhaustive enumeration of pattern collections (empty collection, empty patterns and repeats in every position) x kinds x variants x entry points x value types against the validity predicate; valid scale collections and boundary code points as pattern characters through every entry point",
  "Every sequence of <= 4 (thorough 5) strings from {empty} + U(2,2), plus defect insertion at every position of a base collection, plus index-conversion boundaries; construction must succeed exactly on valid input, return an error kind that names a defect present, and never panic.",
  "Documented size limits (2^24 patterns, 2^32 states) are not exercised; the largest valid collections built are the scale collections (a 70000-byte pattern, 74284 patterns).", "§3 C10"),
 "C11": (True, "model_checking", "product exploration (bisimulation) of the automaton built with num_free_blocks = k and the one built with the default, for k in 1..=64, over all labels, on families that evict many blocks",
  "A completed product exploration shows identical search results for every haystack; state counts compared; each automaton additionally re-checked for table closure.",
  "Families are designed to span/evict many blocks (17-66 blocks); not all pattern sets.", "§3 C11"),
 "C12": (True, "exploration", "bounded-exhaustive enumeration with an instrumented byte source: the pull count is asserted after every next() of every call history",
  "For every case of the small scopes and the three byte-iterator methods on both variants: matches equal the slice search, and when a match ending at e is returned exactly e bytes have been pulled; after None all n.",
  "Bounded inputs.", "§3 C12"),
 "C13": (True, "model_checking", "reference-free ranking analysis on the explored graph of every automaton: closure of the root under child edges (all labels) and fail links; every fail chain reaches the root and every output chain ends; standard kind: longest-path worklist over the real transition graph with the hop counts measured on the crate's own transition loop shows phi(s) = max over paths of sum(fail hops - 1) <= 0, which is equivalent to the 2n bound for that automaton",
  "Termination and the 2n bound are decided for every haystack of each explored automaton (exact, not a sufficient condition); a violation comes with a shortest witness haystack measured again on the real iterator; E2 sweeps also measure hops <= n per haystack; a hang inside library code is turned into a violation by the watchdog.",
  "Designed population; the hop counter is a cfg-guarded hook in the transition loops.", "§3 C13, §11.3"),
 "C14": (True, "model_checking", "all n! registration orders of every small pattern set (byte-identical images), double builds, all merges of next() call sequences of 2-3 iterators, all orders of whole searches over two automata on one thread, all relocation histories (search A in a slot, swap B into the same memory, search B) over a small universe of automata x haystack pairs against brute force, and exhaustive DFS (shuttle) over all byte-pull interleavings of 2-3 threads sharing one automaton",
  "Order independence is enumerated over all permutations; purity over all sequential merges; the thread clause over every interleaving of source pulls under a controlled scheduler (the automaton has no synchronisation, so the byte source is the only seam).",
  "loom/shuttle see no scheduling points inside daachorse; yields are injected in the byte source. Unsynchronised writes are ruled out by the image-unchanged oracle and a Sync/Send compile probe.", "§3 C14"),
 "C15": (True, "model_checking", "for every automaton: states reachable through the crate's own child function over all labels, vs 1 + distinct non-empty prefixes of the reportable patterns computed from the pattern list, vs num_states(); heap/element lower bounds",
  "Exhaustive per automaton over the population and the small scopes, all kinds.", "Designed population.", "§3 C15"),
 "C16": (True, "exploration", "bounded-exhaustive enumeration of daacfind invocations (pattern lists x flag combinations x delivery x inputs) on the dev and the release binary against a reference grep",
  "Every pattern list of the scope x every flag combination x stdin/one file/two files x line-sweep and whole-input sweeps; output compared byte for byte incl. colour escapes.",
  "--color=auto not covered (terminal dependent). CR-before-LF is a recorded known finding.", "§3 C16"),
}

CLAIMED_OVERRIDE = os.environ.get("CLAIMED")
pending = set((os.environ.get("PENDING") or "").split(",")) - {""}

hook_commit = subprocess.run(["git", "-C", "/repo", "log", "--format=%H", "--grep=^verif:", "-n", "5"], capture_output=True, text=True).stdout.split()

checks, na = [], []
for pid in sorted(P):
    claimed, cat, tech, text, note, ref = P[pid]
    if pid in pending:
        na.append({"property_id": pid, "reason": "check under construction in this round; not claimed until it has run silently on the unchanged tree and failed on a seeded change"})
        continue
    checks.append({
        "property_id": pid,
        "quick_cmd": "./check %s quick" % pid,
        "thorough_cmd": "./check %s thorough" % pid,
        "evidence_file": "/verif/evidence/%s.json" % pid,
        "replay_cmd_template": "./check replay {path}",
        "engine": "daacmc",
        "level_claimed": {"category": cat, "text": text, "design_ref": "DESIGN.md " + ref},
        "level_note": note,
        "technique": tech,
    })

manifest = {
    "version": 1,
    "setup_cmd": "./check setup",
    "hooks": {
        "guard": "daachorse_verif",
        "enable": "RUSTFLAGS=\"--cfg daachorse_verif\" (set for the harness build by /verif/.cargo/config.toml)",
        "baseline_off_cmd": "cd /repo && cargo nextest run --workspace --no-fail-fast --offline || cargo test --workspace --no-fail-fast --offline",
        "source_commits": hook_commit,
        "add_only": True,
    },
    "engines": [
        {"name": "daacmc", "path": "harness/src/bin/daacmc.rs", "serves_properties": sorted(P), "kind_free_text": "explicit-state exploration of built automata (E1), bounded-exhaustive enumeration vs oracles (E2), transition cover (E3), product exploration of two automata (E4), CLI enumeration (E6)"},
        {"name": "daacmc-types", "path": "harness/src/bin/daacmc_types.rs", "serves_properties": ["C06", "C09"], "kind_free_text": "value-type matrix (13 built-in types + user-defined Serializable)"},
        {"name": "sched", "path": "sched/src/main.rs", "serves_properties": ["C14"], "kind_free_text": "shuttle check_dfs over byte-pull interleavings of threads sharing one automaton (E5)"},
    ],
    "checks": checks,
    "not_applicable": na,
    "notes": "Model checking: every verdict is an exhaustive enumeration of a stated finite space (states x labels of built automata; pattern sequences x haystacks; schedules; CLI invocations). See DESIGN.md. Known findings: known_findings.json.",
}
json.dump(manifest, open(os.path.join(ROOT, "MANIFEST.json"), "w"), indent=1)
print("claimed:", [c["property_id"] for c in checks])
print("pending:", [c["property_id"] for c in na])

#!/bin/bash
# usage: tools/scratch_run.sh <worktree> <patch> <ID>...   runs the current harness sources against a scratch worktree of /repo
# (separate copy of the harness with its path dependency rewritten; /repo itself is not touched)
WT=$1; PATCH=$2; shift 2
name=$(basename $WT)
S=/tmp/vscratch/$name
mkdir -p $S
rsync -a --delete --exclude target --exclude 'target-*' --exclude replays --exclude evidence /verif/Cargo.toml /verif/Cargo.lock /verif/.cargo /verif/harness /verif/sched /verif/known_findings.json $S/
sed -i "s|path = \"/repo\"|path = \"$WT\"|" $S/harness/Cargo.toml $S/sched/Cargo.toml
cd $WT && git checkout -q -- . ; [ "$PATCH" = "none" ] || git apply $PATCH || exit 2
cd $S && cargo build --release --offline -q 2>&1 | grep -E "^error" -A10 | head -20
for p in "$@"; do
  out=$(VERIF_ROOT=$S timeout 900 $S/target/release/daacmc check $p ${TIER:-quick} 2>&1); rc=$?
  echo "$name $(basename $PATCH) $p rc=$rc violations=$(echo "$out" | grep -c ^VIOLATION) :: $(echo "$out" | grep -A1 ^VIOLATION | head -2 | tr '\n' ' ' | cut -c1-400)"
done
cd $WT && git checkout -q -- .

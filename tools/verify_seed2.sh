#!/bin/bash
# usage: tools/verify_seed.sh <PROP> <n>   verifies /tmp/seed-<PROP>/patch<n>.diff + demo<n>.rs in the scratch worktree /tmp/wt-<PROP>
P=$1; N=$2; WT=/tmp/wt2-$P; S=/tmp/seed2-$P
cd $WT || exit 2
git checkout -q -- . ; git clean -fdq tests daacfind/tests src 2>/dev/null
git apply $S/patch$N.diff || { echo "$P/$N: patch does not apply"; exit 1; }
if cargo test --workspace --offline > /tmp/vs_$P_$N.suite 2>&1; then suite=pass; else suite=FAIL; fi
tdir=tests; pkg="-p daachorse"; grep -q "daacfind/" $S/patch$N.diff && { tdir=daacfind/tests; pkg="-p daacfind"; mkdir -p $tdir; }
cp $S/demo$N.rs $tdir/seed_demo.rs
if cargo test $pkg --offline --test seed_demo > /tmp/vs_$P_$N.with 2>&1; then with=pass; else with=fail; fi
git apply -R $S/patch$N.diff
if cargo test $pkg --offline --test seed_demo > /tmp/vs_$P_$N.without 2>&1; then without=pass; else without=FAIL; fi
rm -f $tdir/seed_demo.rs; grep -q "daacfind/" $S/patch$N.diff && rmdir daacfind/tests 2>/dev/null
git checkout -q -- . ; git clean -fdq tests daacfind/tests src 2>/dev/null
echo "$P/$N: suite_with_patch=$suite demo_with_patch=$with demo_without_patch=$without  (want pass/fail/pass)"

#!/usr/bin/env python3
"""Validates MANIFEST.json and every evidence file against the schemas in /root/.vp."""
import json, sys, os, glob
try:
    import jsonschema
except ImportError:
    sys.path.insert(0, glob.glob('/opt/veriftools/pyvenv/lib/python3*/site-packages')[0])
    import jsonschema
root = os.path.dirname(os.path.dirname(os.path.abspath(__file__)))
ok = True
def check(path, schema):
    global ok
    try:
        jsonschema.validate(json.load(open(path)), json.load(open(schema)))
        print("ok  ", path)
    except Exception as e:
        ok = False
        print("FAIL", path, str(e)[:400])
check(os.path.join(root, "MANIFEST.json"), "/root/.vp/MANIFEST.schema.json")
for f in sorted(glob.glob(os.path.join(root, "evidence", "*.json"))):
    check(f, "/root/.vp/EVIDENCE.schema.json")
m = json.load(open(os.path.join(root, "MANIFEST.json")))
ids = [json.loads(l)["id"] for l in open(os.path.join(root, "properties.jsonl"))]
claimed = [c["property_id"] for c in m["checks"]]
na = [c["property_id"] for c in m.get("not_applicable", [])]
for i in ids:
    if (i in claimed) == (i in na):
        ok = False
        print("FAIL property", i, "claimed" if i in claimed else "neither claimed nor not_applicable")
sys.exit(0 if ok else 1)

#!/usr/bin/env python3
"""Regenerates the table of seeded changes in DESIGN.md from seeded/*/meta.json."""
import json, glob, os, re
root = os.path.dirname(os.path.dirname(os.path.abspath(__file__)))
rows = []
for d in sorted(glob.glob(os.path.join(root, "seeded", "*"))):
    m = json.load(open(os.path.join(d, "meta.json")))
    own = m["property"] in m.get("caught_by", [])
    others = [c for c in m.get("caught_by", []) if c != m["property"]]
    change = m["change"]
    if len(change) > 150:
        change = change[:147] + "..."
    rows.append("| %s | %s | %s | %s | %s |" % (m["id"], m["property"], change.replace("|", "\\|"), "**yes**" if own else ("thorough tier only" if m["property"] in m.get("caught_by_thorough_only", []) else ("not run yet" if not m.get("caught_by") and not os.path.exists(os.path.join(d, "result.txt")) else "**NO**")), ", ".join(others) or "-"))
table = "| seed | property | change (abridged; full text and trigger in `seeded/<id>/meta.json`) | caught by its own check | also caught by |\n|---|---|---|---|---|\n" + "\n".join(rows)
p = os.path.join(root, "DESIGN.md")
s = open(p).read()
begin, end = "<!-- SEED_TABLE_BEGIN -->", "<!-- SEED_TABLE_END -->"
if "SEED_TABLE_PLACEHOLDER" in s:
    s = s.replace("SEED_TABLE_PLACEHOLDER", begin + "\n" + table + "\n" + end)
else:
    s = re.sub(re.escape(begin) + ".*?" + re.escape(end), lambda _: begin + "\n" + table + "\n" + end, s, flags=re.S)
open(p, "w").write(s)
n_own = sum(1 for r in rows if "**yes**" in r or "thorough tier only" in r)
print("%d seeds, %d caught by their own property's check" % (len(rows), n_own))

#!/bin/bash
# Runs every registered quick check against every seeded change (applied to /repo, reverted afterwards).
# PROPS="C03 C13" restricts the checks that are run (used when a seed makes searches hang: every check waits for its watchdog).
# Writes seeded/<id>/result.txt and fills meta.json "caught_by". Usage: tools/seed_matrix.sh [seed-id ...]
cd /verif
ids="$@"; [ -z "$ids" ] && ids=$(ls seeded)
for id in $ids; do
  d=seeded/$id
  cd /repo; git diff --quiet || { echo "/repo dirty"; exit 2; }
  git apply /verif/$d/patch.diff || { echo "$id: patch does not apply"; continue; }
  cd /verif
  : > $d/result.txt
  caught=""
  for p in ${PROPS:-C01 C02 C03 C04 C05 C06 C07 C08 C09 C10 C11 C12 C13 C14 C15 C16}; do
    out=$(./check $p quick 2>&1); rc=$?
    nv=$(echo "$out" | grep -c "^VIOLATION")
    props=$(echo "$out" | grep "^VIOLATION" | sed 's/.*property=\([A-Z0-9]*\).*/\1/' | sort -u | tr '\n' ',')
    first=$(echo "$out" | grep -A1 "^VIOLATION" | sed -n 2p | cut -c1-300)
    echo "$p rc=$rc violation_lines=$nv properties=$props $first" >> $d/result.txt
    [ $rc -eq 1 ] && caught="$caught $p"
  done
  git -C /repo checkout -q -- . ; git -C /repo clean -fdq src daacfind/src tests 2>/dev/null
  python3 - "$d" "$caught" <<'PY'
import json,sys
d,c=sys.argv[1],sys.argv[2].split()
m=json.load(open(d+"/meta.json")); m["caught_by"]=c
json.dump(m,open(d+"/meta.json","w"),indent=1,ensure_ascii=False)
PY
  echo "$id: caught by:$caught"
done

//! Reduced E2 sweep meant to run under Miri (C07, thorough tier): every pattern set of a tiny scope
//! x every haystack through every search method of both variants and all match kinds, built and
//! deserialised. Miri is the oracle for undefined behaviour on the enumerated executions; results
//! are compared with a brute-force oracle as well. Prints `MIRI-SUMMARY cases=<n> searches=<m>`.

use daachorse::{
    CharwiseDoubleArrayAhoCorasick as CA, CharwiseDoubleArrayAhoCorasickBuilder as CB,
    DoubleArrayAhoCorasick as BA, DoubleArrayAhoCorasickBuilder as BB, MatchKind,
};

type M = (usize, usize, u32);

fn universe(sigma: usize, maxlen: usize) -> Vec<Vec<u8>> {
    let mut all = Vec::new();
    let mut layer: Vec<Vec<u8>> = vec![vec![]];
    for _ in 0..maxlen {
        let mut next = Vec::new();
        for w in &layer {
            for a in 0..sigma {
                let mut x = w.clone();
                x.push(a as u8);
                next.push(x);
            }
        }
        all.extend(next.iter().cloned());
        layer = next;
    }
    all
}

fn occurrences(pats: &[Vec<u8>], hay: &[u8]) -> Vec<M> {
    let mut v = Vec::new();
    for s in 0..hay.len() {
        for (i, p) in pats.iter().enumerate() {
            let e = s + p.len();
            if e <= hay.len() && &hay[s..e] == p.as_slice() {
                v.push((s, e, i as u32));
            }
        }
    }
    v
}

fn o_overlapping(occ: &[M]) -> Vec<M> {
    let mut v = occ.to_vec();
    v.sort_by(|a, b| a.1.cmp(&b.1).then(a.0.cmp(&b.0)));
    v
}
fn greedy(occ: &[M], key: impl Fn(&M, &M) -> std::cmp::Ordering) -> Vec<M> {
    let mut v = Vec::new();
    let mut pos = 0;
    while let Some(&o) = occ.iter().filter(|o| o.0 >= pos).min_by(|a, b| key(a, b)) {
        v.push(o);
        pos = o.1;
    }
    v
}
fn o_no_suffix(occ: &[M]) -> Vec<M> {
    let o = o_overlapping(occ);
    let mut v: Vec<M> = Vec::new();
    for m in o {
        if v.last().map_or(true, |l| l.1 != m.1) {
            v.push(m);
        }
    }
    v
}

macro_rules! col {
    ($it:expr) => {
        $it.map(|m| (m.start(), m.end(), m.value())).collect::<Vec<M>>()
    };
}

/// Free-running pass for C14 (run under Miri, whose data-race detector sees unsynchronised
/// accesses that a cooperative scheduler cannot): real threads search one shared automaton with
/// every method at once; results must equal the sequential ones.
fn race() {
    let pats = ["a", "ab", "bab", "b", "\u{4e16}a"];
    for kind in [MatchKind::Standard, MatchKind::LeftmostLongest, MatchKind::LeftmostFirst] {
        let b: std::sync::Arc<BA<u32>> = std::sync::Arc::new(BB::new().match_kind(kind).build(pats).unwrap());
        let c: std::sync::Arc<CA<u32>> = std::sync::Arc::new(CB::new().match_kind(kind).build(pats).unwrap());
        let hays = ["abab\u{4e16}ab", "bab", "\u{4e16}a\u{4e16}"];
        let work = move |b: &BA<u32>, c: &CA<u32>, t: usize| -> Vec<Vec<M>> {
            let mut out = Vec::new();
            for i in 0..hays.len() {
                let h = hays[(i + t) % hays.len()];
                if kind == MatchKind::Standard {
                    out.push(col!(b.find_iter(h)));
                    out.push(col!(b.find_overlapping_iter_from_iter(h.bytes())));
                    out.push(col!(b.find_overlapping_no_suffix_iter(h)));
                    out.push(col!(c.find_iter(h)));
                    out.push(col!(unsafe { c.find_overlapping_iter_from_iter(h.bytes()) }));
                    out.push(col!(c.find_overlapping_no_suffix_iter(h)));
                } else {
                    out.push(col!(b.leftmost_find_iter(h)));
                    out.push(col!(c.leftmost_find_iter(h)));
                }
            }
            out
        };
        let expected: Vec<Vec<Vec<M>>> = (0..3).map(|t| work(&b, &c, t)).collect();
        let before = (b.serialize(), c.serialize());
        let handles: Vec<_> = (0..3)
            .map(|t| {
                let (b, c) = (b.clone(), c.clone());
                std::thread::spawn(move || work(&b, &c, t))
            })
            .collect();
        for (t, h) in handles.into_iter().enumerate() {
            assert_eq!(h.join().unwrap(), expected[t], "concurrent searches changed a result");
        }
        assert!(before == (b.serialize(), c.serialize()), "the automaton changed during searches");
    }
    println!("MIRI-SUMMARY cases=9 searches=126 scope=race(3 real threads x 3 kinds x both variants)");
}

fn main() {
    let args: Vec<String> = std::env::args().collect();
    if args.get(1).map(String::as_str) == Some("race") {
        race();
        return;
    }
    let maxlen: usize = args.get(1).and_then(|s| s.parse().ok()).unwrap_or(2);
    let k: usize = args.get(2).and_then(|s| s.parse().ok()).unwrap_or(2);
    let n: usize = args.get(3).and_then(|s| s.parse().ok()).unwrap_or(3);
    let embs: Vec<(bool, Vec<Vec<u8>>)> = vec![
        (false, vec![vec![0x00], vec![0xff], vec![0x01]]),
        (true, vec!["a".into(), "\u{e9}".into(), "\u{4e16}".into()]),
        (true, vec!["\u{7ff}".into(), "\u{80}".into(), "\u{10000}".into()]),
    ];
    let only: Option<usize> = args.get(4).and_then(|s| s.parse().ok());
    let embs: Vec<(bool, Vec<Vec<u8>>)> = embs
        .into_iter()
        .enumerate()
        .filter(|(i, _)| only.map_or(true, |o| o == *i))
        .map(|(_, e)| e)
        .collect();
    let uni = universe(2, maxlen);
    let mut cases = 0u64;
    let mut searches = 0u64;
    // all sets of <= k patterns
    let mut sets: Vec<Vec<usize>> = Vec::new();
    for i in 0..uni.len() {
        sets.push(vec![i]);
        if k >= 2 {
            for j in i + 1..uni.len() {
                sets.push(vec![i, j]);
                sets.push(vec![j, i]);
            }
        }
    }
    // all haystacks of length <= n over 3 letters
    let mut hays: Vec<Vec<u8>> = vec![vec![]];
    let mut layer: Vec<Vec<u8>> = vec![vec![]];
    for _ in 0..n {
        let mut next = Vec::new();
        for w in &layer {
            for a in 0..3u8 {
                let mut x = w.clone();
                x.push(a);
                next.push(x);
            }
        }
        hays.extend(next.iter().cloned());
        layer = next;
    }
    for (utf8, letters) in &embs {
        let map = |w: &Vec<u8>| -> Vec<u8> { w.iter().flat_map(|&a| letters[a as usize].clone()).collect() };
        for set in &sets {
            let pats: Vec<Vec<u8>> = set.iter().map(|&i| map(&uni[i])).collect();
            for kind in [MatchKind::Standard, MatchKind::LeftmostLongest, MatchKind::LeftmostFirst] {
                // byte-wise, built and restored
                let b0: BA<u32> = BB::new().match_kind(kind).num_free_blocks(1).build(&pats).unwrap();
                let bytes = b0.serialize();
                let (b1, rest) = unsafe { BA::<u32>::deserialize_unchecked(&bytes) };
                assert!(rest.is_empty() && b1 == b0);
                let cw: Option<(CA<u32>, CA<u32>)> = if *utf8 {
                    let sp: Vec<&str> = pats.iter().map(|p| std::str::from_utf8(p).unwrap()).collect();
                    let c0: CA<u32> = CB::new().match_kind(kind).num_free_blocks(1).build(&sp).unwrap();
                    let cb = c0.serialize();
                    let (c1, rest) = unsafe { CA::<u32>::deserialize_unchecked(&cb) };
                    assert!(rest.is_empty() && c1 == c0);
                    Some((c0, c1))
                } else {
                    None
                };
                for h in &hays {
                    let hay = map(h);
                    let occ = occurrences(&pats, &hay);
                    cases += 1;
                    let exp: Vec<Vec<M>> = match kind {
                        MatchKind::Standard => vec![
                            greedy(&occ, |a, b| a.1.cmp(&b.1).then(a.0.cmp(&b.0))),
                            o_overlapping(&occ),
                            o_no_suffix(&occ),
                        ],
                        MatchKind::LeftmostLongest => vec![greedy(&occ, |a, b| a.0.cmp(&b.0).then(b.1.cmp(&a.1)))],
                        MatchKind::LeftmostFirst => vec![greedy(&occ, |a, b| a.0.cmp(&b.0).then(a.2.cmp(&b.2)))],
                    };
                    for a in [&b0, &b1] {
                        if kind == MatchKind::Standard {
                            assert_eq!(col!(a.find_iter(&hay)), exp[0]);
                            assert_eq!(col!(a.find_iter_from_iter(hay.iter().copied())), exp[0]);
                            assert_eq!(col!(a.find_overlapping_iter(&hay)), exp[1]);
                            assert_eq!(col!(a.find_overlapping_iter_from_iter(hay.iter().copied())), exp[1]);
                            assert_eq!(col!(a.find_overlapping_no_suffix_iter(&hay)), exp[2]);
                            assert_eq!(col!(a.find_overlapping_no_suffix_iter_from_iter(hay.iter().copied())), exp[2]);
                            searches += 6;
                        } else {
                            assert_eq!(col!(a.leftmost_find_iter(&hay)), exp[0]);
                            searches += 1;
                        }
                    }
                    if let Some((c0, c1)) = &cw {
                        let s = std::str::from_utf8(&hay).unwrap();
                        for a in [c0, c1] {
                            if kind == MatchKind::Standard {
                                assert_eq!(col!(a.find_iter(s)), exp[0]);
                                assert_eq!(col!(unsafe { a.find_iter_from_iter(s.bytes()) }), exp[0]);
                                assert_eq!(col!(a.find_overlapping_iter(s)), exp[1]);
                                assert_eq!(col!(unsafe { a.find_overlapping_iter_from_iter(s.bytes()) }), exp[1]);
                                assert_eq!(col!(a.find_overlapping_no_suffix_iter(s)), exp[2]);
                                assert_eq!(col!(unsafe { a.find_overlapping_no_suffix_iter_from_iter(s.bytes()) }), exp[2]);
                                searches += 6;
                            } else {
                                assert_eq!(col!(a.leftmost_find_iter(s)), exp[0]);
                                searches += 1;
                            }
                        }
                    }
                }
            }
        }
    }
    // haystack objects whose AsRef answer changes once (see DESIGN §11.20), reduced: only with the
    // second embedding so that the three parallel Miri processes do not repeat it
    if only.map_or(true, |o| o == 1) {
        let (c, s2) = shifty();
        cases += c;
        searches += s2;
    }
    println!("MIRI-SUMMARY cases={cases} searches={searches} scope=S(2,{maxlen},{k}|{n},1) embeddings={}", embs.len());
}

struct Shifty {
    v1: String,
    v2: String,
    k: usize,
    calls: std::cell::Cell<usize>,
}
impl Shifty {
    fn view(&self) -> &str {
        let c = self.calls.get();
        self.calls.set(c + 1);
        if c < self.k {
            &self.v1
        } else {
            &self.v2
        }
    }
}
impl AsRef<str> for Shifty {
    fn as_ref(&self) -> &str {
        self.view()
    }
}
impl AsRef<[u8]> for Shifty {
    fn as_ref(&self) -> &[u8] {
        self.view().as_bytes()
    }
}

/// Every ordered pair of views of <= 2 characters over {a, e-acute, U+4E16} x every switch point x the
/// slice entry points of both variants (Standard and LeftmostLongest). Any result is accepted; Miri
/// reports undefined behaviour.
fn shifty() -> (u64, u64) {
    use daachorse::{CharwiseDoubleArrayAhoCorasickBuilder, DoubleArrayAhoCorasickBuilder, MatchKind};
    let letters = ["a", "\u{e9}", "\u{4e16}"];
    let mut views: Vec<String> = vec![String::new()];
    for a in letters {
        views.push(a.to_string());
        for b in letters {
            views.push(format!("{a}{b}"));
        }
    }
    let pats = ["a", "\u{e9}a", "\u{4e16}\u{e9}"];
    let (mut cases, mut searches) = (0u64, 0u64);
    for kind in [MatchKind::Standard, MatchKind::LeftmostLongest] {
        let b = DoubleArrayAhoCorasickBuilder::new().match_kind(kind).build::<_, _, u32>(pats).unwrap();
        let c = CharwiseDoubleArrayAhoCorasickBuilder::new().match_kind(kind).build::<_, _, u32>(pats).unwrap();
        for v1 in &views {
            for v2 in &views {
                if v1 == v2 {
                    continue;
                }
                cases += 1;
                let methods = if kind == MatchKind::Standard { 3 } else { 1 };
                for m in 0..methods {
                    for variant in 0..2 {
                        let mut k = 0usize;
                        loop {
                            let sh = Shifty { v1: v1.clone(), v2: v2.clone(), k, calls: std::cell::Cell::new(0) };
                            let _ = std::panic::catch_unwind(std::panic::AssertUnwindSafe(|| {
                                let cap = 200usize;
                                macro_rules! drain {
                                    ($it:expr) => {{
                                        let mut n = 0;
                                        for _x in $it {
                                            n += 1;
                                            if n > cap {
                                                break;
                                            }
                                        }
                                    }};
                                }
                                match (variant, kind == MatchKind::Standard, m) {
                                    (0, true, 0) => drain!(b.find_iter(&sh)),
                                    (0, true, 1) => drain!(b.find_overlapping_iter(&sh)),
                                    (0, true, _) => drain!(b.find_overlapping_no_suffix_iter(&sh)),
                                    (0, false, _) => drain!(b.leftmost_find_iter(&sh)),
                                    (_, true, 0) => drain!(c.find_iter(&sh)),
                                    (_, true, 1) => drain!(c.find_overlapping_iter(&sh)),
                                    (_, true, _) => drain!(c.find_overlapping_no_suffix_iter(&sh)),
                                    (_, false, _) => drain!(c.leftmost_find_iter(&sh)),
                                }
                            }));
                            searches += 1;
                            k += 1;
                            if k > sh.calls.get() || k > 12 {
                                break;
                            }
                        }
                    }
                }
            }
        }
    }
    (cases, searches)
}

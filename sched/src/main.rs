fn main(){ shuttle::check_dfs(|| { shuttle::thread::yield_now(); }, None); println!("ok"); }

//! E5 — exhaustive byte-pull interleavings of searches that share one automaton.
//!
//! daachorse contains no lock, atomic or cell, so a controlled scheduler sees no scheduling point
//! inside it. The only seam at which real searches can be interleaved is the byte source of the
//! `*_from_iter` entry points: the source yields to the scheduler before every byte, so
//! `shuttle::check_dfs` (exhaustive depth-first search, no sampling) switches threads between any
//! two bytes of any search.

use daachorse::{
    CharwiseDoubleArrayAhoCorasick as CA, DoubleArrayAhoCorasick as BA,
};
use std::sync::{Arc, Mutex};
use std::collections::HashSet;

type M = (usize, usize, u32);

#[derive(Clone, Copy, Debug, PartialEq, Eq)]
enum Method {
    Find,
    Ovl,
    NoSuf,
}
impl Method {
    fn name(self) -> &'static str {
        match self {
            Method::Find => "find_iter_from_iter",
            Method::Ovl => "find_overlapping_iter_from_iter",
            Method::NoSuf => "find_overlapping_no_suffix_iter_from_iter",
        }
    }
    fn parse(s: &str) -> Method {
        match s {
            "find_iter_from_iter" => Method::Find,
            "find_overlapping_iter_from_iter" => Method::Ovl,
            _ => Method::NoSuf,
        }
    }
}

enum Auto {
    B(BA<u32>),
    C(CA<u32>),
}

// Compile-time probe: the automata must stay shareable between threads.
fn _assert_sync_send<T: Sync + Send>() {}
fn _probe() {
    _assert_sync_send::<BA<u32>>();
    _assert_sync_send::<CA<u32>>();
    _assert_sync_send::<BA<u128>>();
    _assert_sync_send::<CA<daachorse::Empty>>();
}

struct YieldingSource<'a> {
    hay: &'a [u8],
    pos: usize,
    tid: u8,
    // a std mutex on purpose: logging must not add scheduling points
    log: Option<Arc<Mutex<Vec<u8>>>>,
}
impl Iterator for YieldingSource<'_> {
    type Item = u8;
    fn next(&mut self) -> Option<u8> {
        // the scheduling point: any other thread may run before this byte is delivered
        shuttle::thread::yield_now();
        let b = *self.hay.get(self.pos)?;
        self.pos += 1;
        if let Some(l) = &self.log {
            l.lock().unwrap().push(self.tid);
        }
        Some(b)
    }
}

fn run(a: &Auto, m: Method, src: YieldingSource) -> Vec<M> {
    macro_rules! col {
        ($it:expr) => {
            $it.map(|m| (m.start(), m.end(), m.value())).collect()
        };
    }
    match a {
        Auto::B(a) => match m {
            Method::Find => col!(a.find_iter_from_iter(src)),
            Method::Ovl => col!(a.find_overlapping_iter_from_iter(src)),
            Method::NoSuf => col!(a.find_overlapping_no_suffix_iter_from_iter(src)),
        },
        Auto::C(a) => unsafe {
            match m {
                Method::Find => col!(a.find_iter_from_iter(src)),
                Method::Ovl => col!(a.find_overlapping_iter_from_iter(src)),
                Method::NoSuf => col!(a.find_overlapping_no_suffix_iter_from_iter(src)),
            }
        },
    }
}

fn run_plain(a: &Auto, m: Method, hay: &[u8]) -> Vec<M> {
    macro_rules! col {
        ($it:expr) => {
            $it.map(|m| (m.start(), m.end(), m.value())).collect()
        };
    }
    match a {
        Auto::B(a) => match m {
            Method::Find => col!(a.find_iter(hay)),
            Method::Ovl => col!(a.find_overlapping_iter(hay)),
            Method::NoSuf => col!(a.find_overlapping_no_suffix_iter(hay)),
        },
        Auto::C(a) => {
            let s = std::str::from_utf8(hay).unwrap();
            match m {
                Method::Find => col!(a.find_iter(s)),
                Method::Ovl => col!(a.find_overlapping_iter(s)),
                Method::NoSuf => col!(a.find_overlapping_no_suffix_iter(s)),
            }
        }
    }
}

fn build(charwise: bool, pats: &[&str]) -> Auto {
    if charwise {
        Auto::C(CA::new(pats).unwrap())
    } else {
        Auto::B(BA::new(pats).unwrap())
    }
}

fn image(a: &Auto) -> Vec<u8> {
    match a {
        Auto::B(a) => a.serialize(),
        Auto::C(a) => a.serialize(),
    }
}

struct Harness {
    charwise: bool,
    pats: Vec<&'static str>,
    threads: Vec<(Method, &'static str)>,
}

struct Stats {
    schedules: u64,
    steps: u64,
    interleavings: HashSet<Vec<u8>>,
    failure: Option<String>,
}

/// Explores every schedule of one harness. Returns statistics; a mismatch is recorded.
fn explore(h: &Harness) -> Stats {
    let auto = std::sync::Arc::new(build(h.charwise, &h.pats));
    let img = image(&auto);
    let expected: Vec<Vec<M>> = h
        .threads
        .iter()
        .map(|(m, hay)| run_plain(&auto, *m, hay.as_bytes()))
        .collect();
    let stats = std::sync::Arc::new(std::sync::Mutex::new(Stats {
        schedules: 0,
        steps: 0,
        interleavings: HashSet::new(),
        failure: None,
    }));
    let threads: Vec<(Method, &'static str)> = h.threads.clone();
    let st = stats.clone();
    let a0 = auto.clone();
    let exp = expected.clone();
    let res = std::panic::catch_unwind(std::panic::AssertUnwindSafe(|| {
        shuttle::check_dfs(
            move || {
                let log = Arc::new(Mutex::new(Vec::<u8>::new()));
                let mut handles = Vec::new();
                // searches 1.. run on spawned threads, search 0 on the main thread itself (fewer
                // scheduling points of the harness, same set of pull interleavings)
                for (i, (m, hay)) in threads.iter().enumerate().skip(1) {
                    let a = a0.clone();
                    let log = log.clone();
                    let m = *m;
                    let hay: &'static str = hay;
                    handles.push(shuttle::thread::spawn(move || {
                        let src = YieldingSource {
                            hay: hay.as_bytes(),
                            pos: 0,
                            tid: i as u8,
                            log: Some(log),
                        };
                        run(&a, m, src)
                    }));
                }
                let r0 = run(
                    &a0,
                    threads[0].0,
                    YieldingSource {
                        hay: threads[0].1.as_bytes(),
                        pos: 0,
                        tid: 0,
                        log: Some(log.clone()),
                    },
                );
                let mut results: Vec<Vec<M>> = vec![r0];
                results.extend(handles.into_iter().map(|h| h.join().unwrap()));
                let l = log.lock().unwrap().clone();
                {
                    let mut s = st.lock().unwrap();
                    s.schedules += 1;
                    s.steps += l.len() as u64;
                    s.interleavings.insert(l.clone());
                }
                for (i, r) in results.iter().enumerate() {
                    if *r != exp[i] {
                        let mut s = st.lock().unwrap();
                        s.failure = Some(format!(
                            "thread {i} ({}) returned {:?} under pull interleaving {:?}; alone it returns {:?}",
                            threads[i].0.name(), r, l, exp[i]
                        ));
                        drop(s);
                        panic!("interleaving changes a result");
                    }
                }
            },
            None,
        );
    }));
    let mut s = std::sync::Arc::try_unwrap(stats)
        .ok()
        .map(|m| m.into_inner().unwrap())
        .unwrap_or(Stats {
            schedules: 0,
            steps: 0,
            interleavings: HashSet::new(),
            failure: Some("stats still shared".into()),
        });
    if res.is_err() && s.failure.is_none() {
        s.failure = Some("the explorer panicked".into());
    }
    if image(&auto) != img && s.failure.is_none() {
        s.failure = Some("the automaton's bytes changed during the searches".into());
    }
    s
}

fn harnesses(thorough: bool) -> Vec<Harness> {
    let mut v = Vec::new();
    let ms = [Method::Find, Method::Ovl, Method::NoSuf];
    for charwise in [false, true] {
        for (i, &m1) in ms.iter().enumerate() {
            for &m2 in ms.iter().skip(i) {
                v.push(Harness {
                    charwise,
                    pats: vec!["a", "ab", "bab", "b"],
                    threads: vec![(m1, "abab"), (m2, "bab")],
                });
            }
        }
        // patterns longer than one byte: a search keeps automaton state across several pulls, so a
        // switch between two pulls happens *inside* a partial match (with one-byte patterns every
        // pull ends in a match and the searches carry nothing over a scheduling point)
        for &m1 in &ms {
            v.push(Harness {
                charwise,
                pats: vec!["abc", "bca", "cc"],
                threads: vec![(m1, "ababc"), (Method::Find, "bcabc")],
            });
        }
        // the same haystack on both threads (same states visited at the same time)
        v.push(Harness {
            charwise,
            pats: vec!["aa", "a"],
            threads: vec![(Method::Ovl, "aaa"), (Method::Find, "aaa")],
        });
        // three threads
        v.push(Harness {
            charwise,
            pats: vec!["a", "ab", "bab", "b"],
            threads: vec![(Method::Ovl, "aba"), (Method::Find, "bab"), (Method::NoSuf, "ab")],
        });
        if thorough {
            v.push(Harness {
                charwise,
                pats: vec!["a", "ab", "bab", "b"],
                threads: vec![(Method::Ovl, "ababab"), (Method::NoSuf, "babab")],
            });
            v.push(Harness {
                charwise,
                pats: vec!["a", "ab", "bab", "b", "abab"],
                threads: vec![(Method::Ovl, "abab"), (Method::Find, "bab"), (Method::NoSuf, "aba")],
            });
            v.push(Harness {
                charwise,
                pats: vec!["aa", "a"],
                threads: vec![(Method::Ovl, "aaaaaaaa"), (Method::Find, "aaaaaaaa")],
            });
        }
    }
    // multi-byte characters: the decoder pulls 3 bytes per character
    v.push(Harness {
        charwise: true,
        pats: vec!["\u{4e16}", "a\u{4e16}"],
        threads: vec![(Method::Ovl, "a\u{4e16}"), (Method::Find, "\u{4e16}a")],
    });
    v
}

fn hexs(b: &[u8]) -> String {
    b.iter().map(|x| format!("{x:02x}")).collect()
}

fn main() {
    let args: Vec<String> = std::env::args().collect();
    let mode = args.get(1).map(String::as_str).unwrap_or("check");
    if mode == "replay" {
        // replay file: one harness; explored again exhaustively (tiny) - no schedule string needed
        let txt = std::fs::read_to_string(&args[2]).expect("replay file");
        let get = |k: &str| -> Vec<String> {
            let key = format!("\"{k}\": [");
            let s = txt.find(&key).map(|i| &txt[i + key.len()..]).unwrap_or("");
            let e = s.find(']').unwrap_or(0);
            s[..e]
                .split(',')
                .map(|x| x.trim().trim_matches('"').to_string())
                .filter(|x| !x.is_empty())
                .collect()
        };
        let unhex = |s: &str| -> String {
            let b: Vec<u8> = (0..s.len() / 2)
                .map(|i| u8::from_str_radix(&s[2 * i..2 * i + 2], 16).unwrap())
                .collect();
            String::from_utf8(b).unwrap()
        };
        let pats: Vec<&'static str> = get("patterns")
            .iter()
            .map(|p| &*Box::leak(unhex(p).into_boxed_str()))
            .collect();
        let hays: Vec<&'static str> = get("haystacks")
            .iter()
            .map(|p| &*Box::leak(unhex(p).into_boxed_str()))
            .collect();
        let methods: Vec<Method> = get("methods").iter().map(|m| Method::parse(m)).collect();
        let charwise = txt.contains("\"variant\": \"charwise\"");
        let h = Harness {
            charwise,
            pats,
            threads: methods.into_iter().zip(hays).collect(),
        };
        let s = explore(&h);
        match s.failure {
            Some(f) => {
                println!("replay: {f}");
                println!("replay: STILL FAILS");
                std::process::exit(1);
            }
            None => {
                println!("replay: {} schedules, all equal to the solo runs", s.schedules);
                println!("replay: passes");
                std::process::exit(0);
            }
        }
    }
    let thorough = args.get(2).map(String::as_str) == Some("thorough");
    let hs = harnesses(thorough);
    let mut schedules = 0u64;
    let mut steps = 0u64;
    let mut distinct = 0u64;
    let mut violations = 0;
    let mut sample = String::new();
    // sequential on purpose: concurrent shuttle runners in one process disturb each other
    let results: Vec<Stats> = (0..hs.len())
        .map(|n| {
            let t0 = std::time::Instant::now();
            let s = explore(&hs[n]);
            if std::env::var("SCHED_VERBOSE").is_ok() {
                eprintln!("harness {n}: {} schedules, {} distinct interleavings, {:?}", s.schedules, s.interleavings.len(), t0.elapsed());
            }
            s
        })
        .collect();
    for (n, (h, s)) in hs.iter().zip(results).enumerate() {
        schedules += s.schedules;
        steps += s.steps;
        distinct += s.interleavings.len() as u64;
        if sample.is_empty() {
            sample = format!(
                "{{\"variant\":\"{}\",\"patterns\":{:?},\"threads\":{:?},\"schedules\":{},\"distinct_pull_interleavings\":{}}}",
                if h.charwise { "charwise" } else { "bytewise" },
                h.pats,
                h.threads.iter().map(|t| format!("{}({})", t.0.name(), t.1)).collect::<Vec<_>>(),
                s.schedules,
                s.interleavings.len()
            );
        }
        if let Some(f) = s.failure {
            violations += 1;
            let root = std::env::var("VERIF_ROOT").unwrap_or_else(|_| "/verif".into());
            let _ = std::fs::create_dir_all(format!("{root}/replays"));
            let path = format!("{root}/replays/C14-sched-{n}.json");
            let body = format!(
                "{{\n \"property\": \"C14\",\n \"engine\": \"sched\",\n \"variant\": \"{}\",\n \"patterns\": [{}],\n \"methods\": [{}],\n \"haystacks\": [{}],\n \"what\": {:?}\n}}\n",
                if h.charwise { "charwise" } else { "bytewise" },
                h.pats.iter().map(|p| format!("\"{}\"", hexs(p.as_bytes()))).collect::<Vec<_>>().join(", "),
                h.threads.iter().map(|t| format!("\"{}\"", t.0.name())).collect::<Vec<_>>().join(", "),
                h.threads.iter().map(|t| format!("\"{}\"", hexs(t.1.as_bytes()))).collect::<Vec<_>>().join(", "),
                f
            );
            let _ = std::fs::write(&path, body);
            println!("VIOLATION property=C14 replay={path}");
            println!("  what: {f}");
        }
    }
    println!(
        "SCHED-SUMMARY {{\"schedules\":{schedules},\"steps\":{steps},\"harnesses\":{},\"distinct_interleavings\":{distinct},\"bounds\":\"E5 shuttle check_dfs (exhaustive): {} harnesses of 2-3{} threads, yield before every source byte, both variants, all pairs of the three byte-iterator methods\",\"sample\":{sample}}}",
        hs.len(),
        hs.len(),
        if thorough { " (longer haystacks)" } else { "" }
    );
    std::process::exit(if violations > 0 { 1 } else { 0 });
}
